//! Generates `cargo metadata` JSON for synthetic workspaces, loaded through guppy.
use crate::rng::Rng;
use serde_json::{json, Value};

#[derive(Clone, Debug)]
pub struct Pkg {
    pub name: String,
    pub workspace: bool,
    /// non-workspace *path* dependency (lives outside the workspace root, may depend on members)
    pub path_dep: bool,
    /// (target index, kind: 0 normal, 1 dev, 2 build)
    pub deps: Vec<(usize, u8)>,
    /// extra build targets: (kind, name) with kind in test|bin|example|bench
    pub targets: Vec<(String, String)>,
}

#[derive(Clone, Debug)]
pub struct GraphSpec {
    pub pkgs: Vec<Pkg>,
}

impl GraphSpec {
    /// Random DAG: edges only from lower to higher index (acyclic); a mix of workspace and
    /// external packages so that paths through non-workspace intermediates exist.
    pub fn random(rng: &mut Rng, n_ws: usize, n_ext: usize) -> Self {
        let n = n_ws + n_ext;
        let mut ws_flags: Vec<bool> = (0..n).map(|i| i < n_ws).collect();
        // shuffle positions so that external packages sit between workspace ones
        for i in (1..n).rev() {
            let j = rng.below(i as u64 + 1) as usize;
            ws_flags.swap(i, j);
        }
        let mut pkgs = Vec::new();
        let mut wsi = 0;
        let mut exi = 0;
        for i in 0..n {
            let name = if ws_flags[i] { wsi += 1; format!("w{}", wsi - 1) } else { exi += 1; format!("x{}", exi - 1) };
            let mut deps = Vec::new();
            let path_dep = !ws_flags[i] && rng.chance(1, 2);
            for j in (i + 1)..n {
                if rng.chance(1, 3) {
                    // registry packages cannot depend on workspace members; non-workspace path
                    // dependencies can (a -> ext -> b with a, b members).
                    if !ws_flags[i] && ws_flags[j] && !path_dep { continue; }
                    let kind = if ws_flags[i] { [0u8, 0, 0, 1, 2][rng.below(5) as usize] } else { 0 };
                    deps.push((j, kind));
                }
            }
            let mut targets = Vec::new();
            if ws_flags[i] {
                if rng.chance(1, 2) { targets.push(("test".to_string(), format!("it{}", rng.below(3)))); }
                if rng.chance(1, 4) { targets.push(("bin".to_string(), format!("{}-bin", name))); }
                if rng.chance(1, 5) { targets.push(("example".to_string(), "ex".to_string())); }
                if rng.chance(1, 5) { targets.push(("bench".to_string(), "bn".to_string())); }
            }
            pkgs.push(Pkg { name, workspace: ws_flags[i], path_dep, deps, targets });
        }
        GraphSpec { pkgs }
    }

    /// `random`, then (for about half of the graphs) dev-dependency edges from workspace members back to members of lower
    /// index: Cargo allows dependency cycles through dev-dependencies, so `depends_on` is not a partial order.
    pub fn random_cyclic(rng: &mut Rng, n_ws: usize, n_ext: usize) -> Self {
        let mut g = Self::random(rng, n_ws, n_ext);
        if rng.chance(1, 2) {
            let n = g.pkgs.len();
            for j in 1..n {
                for i in 0..j {
                    if g.pkgs[j].workspace && g.pkgs[i].workspace && rng.chance(1, 4) { g.pkgs[j].deps.push((i, 1)); }
                }
            }
        }
        g
    }

    /// true if some dependency edge points from a higher to a lower index
    pub fn has_back_edge(&self) -> bool { self.pkgs.iter().enumerate().any(|(i, p)| p.deps.iter().any(|(j, _)| *j < i)) }

    pub fn id(&self, i: usize) -> String {
        let p = &self.pkgs[i];
        if p.workspace {
            format!("path+file:///ws/{}#0.1.0", p.name)
        } else if p.path_dep {
            format!("path+file:///outside/{}#1.0.0", p.name)
        } else {
            format!("registry+https://github.com/rust-lang/crates.io-index#{}@1.0.0", p.name)
        }
    }

    pub fn to_json(&self) -> String {
        let mut packages = Vec::new();
        let mut nodes = Vec::new();
        let mut members = Vec::new();
        for (i, p) in self.pkgs.iter().enumerate() {
            let id = self.id(i);
            if p.workspace { members.push(Value::String(id.clone())); }
            let dir = if p.workspace { format!("/ws/{}", p.name) } else if p.path_dep { format!("/outside/{}", p.name) } else { format!("/reg/{}-1.0.0", p.name) };
            let source = if p.workspace || p.path_dep { Value::Null } else { json!("registry+https://github.com/rust-lang/crates.io-index") };
            let mut dependencies = Vec::new();
            let mut deps = Vec::new();
            let mut dep_ids = Vec::new();
            for &(j, kind) in &p.deps {
                let q = &self.pkgs[j];
                let kind_v = match kind { 0 => Value::Null, 1 => json!("dev"), _ => json!("build") };
                let mut d = json!({
                    "name": q.name, "source": if q.workspace || q.path_dep { Value::Null } else { json!("registry+https://github.com/rust-lang/crates.io-index") },
                    "req": if q.workspace || q.path_dep { "*" } else { "^1.0.0" }, "kind": kind_v, "rename": null, "optional": false,
                    "uses_default_features": true, "features": [], "target": null, "registry": null
                });
                if q.workspace { d["path"] = json!(format!("/ws/{}", q.name)); }
                else if q.path_dep { d["path"] = json!(format!("/outside/{}", q.name)); }
                dependencies.push(d);
                deps.push(json!({"name": q.name.replace('-', "_"), "pkg": self.id(j), "dep_kinds": [{"kind": kind_v, "target": null}]}));
                dep_ids.push(Value::String(self.id(j)));
            }
            let mut targets = vec![json!({"kind": ["lib"], "crate_types": ["lib"], "name": p.name.replace('-', "_"),
                "src_path": format!("{}/src/lib.rs", dir), "edition": "2021", "doc": true, "doctest": true, "test": true})];
            for (k, n) in &p.targets {
                targets.push(json!({"kind": [k], "crate_types": ["bin"], "name": n,
                    "src_path": format!("{}/{}/{}.rs", dir, k, n), "edition": "2021", "doc": false, "doctest": false, "test": true}));
            }
            packages.push(json!({
                "name": p.name, "version": if p.workspace { "0.1.0" } else { "1.0.0" }, "id": id, "license": null, "license_file": null,
                "description": null, "source": source, "dependencies": dependencies, "targets": targets, "features": {},
                "manifest_path": format!("{}/Cargo.toml", dir), "metadata": null, "publish": null, "authors": [],
                "categories": [], "keywords": [], "readme": null, "repository": null, "homepage": null,
                "documentation": null, "edition": "2021", "links": null, "default_run": null, "rust_version": null
            }));
            nodes.push(json!({"id": id, "dependencies": dep_ids, "deps": deps, "features": []}));
        }
        json!({
            "packages": packages, "workspace_members": members, "workspace_default_members": members,
            "resolve": {"nodes": nodes, "root": null}, "target_directory": "/ws/target", "version": 1,
            "workspace_root": "/ws", "metadata": null
        }).to_string()
    }

    pub fn build(&self) -> guppy::graph::PackageGraph {
        guppy::CargoMetadata::parse_json(self.to_json()).expect("metadata json").build_graph().expect("graph")
    }
}
