//! In-process correspondence stream for C06: generated repository + tool config files (TOML text),
//! profiles, overrides with platform / filter conditions and arbitrary subsets of the per-test
//! settings, resolved by the real `NextestConfig::from_sources` → `profile` → `apply_build_platforms`
//! → `settings_for`, against the Lean model of the documented search order.
use camino::{Utf8Path, Utf8PathBuf};
use guppy::graph::cargo::BuildPlatform;
use nextest_filtering::{BinaryQuery, ParseContext, TestQuery};
use nextest_metadata::{RustBinaryId, RustTestBinaryKind};
use nextest_runner::cargo_config::{TargetDefinitionLocation, TargetTriple, TargetTripleSource};
use nextest_runner::config::{NextestConfig, TestGroup, ThreadsRequired, ToolConfigFile};
use nextest_runner::platform::{BuildPlatforms, HostPlatform, PlatformLibdir, TargetPlatform};
use nextest_runner::reporter::TestOutputDisplay;
use std::collections::{BTreeMap, BTreeSet};
use std::io::Write;
use target_spec::{Platform, TargetFeatures};
use verif_harness::{graphgen::GraphSpec, hexs::*, rng::Rng};

const HOST: &str = "x86_64-unknown-linux-gnu";
const TARGET: &str = "aarch64-apple-darwin";
// (spec, true on host platform, true on target platform)
const PLATFORMS: &[(&str, bool, bool)] = &[
    ("cfg(unix)", true, true), ("cfg(windows)", false, false), ("x86_64-unknown-linux-gnu", true, false),
    ("aarch64-apple-darwin", false, true), ("cfg(target_os = \"linux\")", true, false),
    ("cfg(target_os = \"macos\")", false, true), ("cfg(target_arch = \"aarch64\")", false, true),
];
// (filter, accepts a, accepts b, accepts ab)
const FILTERS: &[(&str, [bool; 3])] = &[
    ("test(a)", [true, false, true]), ("test(b)", [false, true, true]), ("test(=ab)", [false, false, true]),
    ("all()", [true, true, true]), ("none()", [false, false, false]), ("not test(a)", [false, true, false]),
    ("test(a) & test(b)", [false, false, true]), ("default()", [true, true, true]),
];
const TESTS: &[&str] = &["a", "b", "ab"];
const OUT: &[&str] = &["immediate", "immediate-final", "final", "never"];
const EXTRA: &[&str] = &["[]", "[\"--a\"]", "[\"--b\", \"c\"]"];

fn toml_kv(field: usize, v: u64, in_override: bool) -> String {
    match field {
        0 => format!("priority = {}", v),
        1 => format!("threads-required = {}", v),
        2 => format!("run-extra-args = {}", EXTRA[v as usize]),
        3 => format!("retries = {}", v),
        4 => format!("slow-timeout = \"{}s\"", v),
        5 => format!("leak-timeout = \"{}ms\"", v),
        6 => format!("test-group = \"g{}\"", v),
        7 => format!("success-output = \"{}\"", OUT[v as usize]),
        8 => format!("failure-output = \"{}\"", OUT[v as usize]),
        9 => if in_override { format!("junit.store-success-output = {}", v == 1) } else { format!("store-success-output = {}", v == 1) },
        _ => if in_override { format!("junit.store-failure-output = {}", v == 1) } else { format!("store-failure-output = {}", v == 1) },
    }
}
fn gen_val(rng: &mut Rng, field: usize) -> u64 {
    match field {
        0 => rng.range(1, 5), 1 => rng.range(1, 3), 2 => rng.range(0, 2), 3 => rng.range(0, 4), 4 => *rng.pick(&[10, 20, 30]),
        5 => *rng.pick(&[200, 300, 400]), 6 => rng.range(1, 3), 7 | 8 => rng.range(0, 3), _ => rng.range(0, 1),
    }
}

struct Ov { host: Option<usize>, target: Option<usize>, filter: Option<usize>, default_filter: bool, data: Vec<(usize, u64)> }
struct Prof { name: String, level: Vec<(usize, u64)>, ovs: Vec<Ov> }

fn gen_file(rng: &mut Rng, is_repo: bool, dist: &mut BTreeMap<String, u64>) -> Vec<Prof> {
    let mut profs = Vec::new();
    for name in ["default", "ci", "p2"] {
        if !is_repo && !rng.chance(2, 3) { continue; }
        if is_repo && name != "default" && rng.chance(1, 4) {
            // the repository config mentions the profile only to enable JUnit for it
            profs.push(Prof { name: name.into(), level: vec![], ovs: vec![] });
            continue;
        }
        let mut level = Vec::new();
        for f in [1usize, 2, 3, 4, 5, 7, 8, 9, 10] { if rng.chance(1, 4) { level.push((f, gen_val(rng, f))); } }
        let mut ovs = Vec::new();
        for _ in 0..rng.below(5) {
            let mut ov = Ov { host: None, target: None, filter: None, default_filter: false, data: vec![] };
            match rng.below(5) {
                0 => { ov.target = Some(rng.below(PLATFORMS.len() as u64) as usize); }
                1 => { ov.host = Some(rng.below(PLATFORMS.len() as u64) as usize); ov.target = Some(rng.below(PLATFORMS.len() as u64) as usize); }
                2 => { ov.target = Some(rng.below(PLATFORMS.len() as u64) as usize); ov.filter = Some(rng.below(FILTERS.len() as u64) as usize); }
                3 => { ov.host = Some(rng.below(PLATFORMS.len() as u64) as usize); if rng.chance(1, 2) { ov.default_filter = true; } else { ov.filter = Some(rng.below(FILTERS.len() as u64) as usize); } }
                _ => { ov.filter = Some(rng.below(FILTERS.len() as u64) as usize); }
            }
            let dense = rng.chance(1, 3);
            for f in 0..11usize {
                if f == 6 && !is_repo { continue; } // test groups referenced by tool configs must be tool-defined
                if rng.chance(if dense { 2 } else { 1 }, if dense { 3 } else { 5 }) { ov.data.push((f, gen_val(rng, f))); }
            }
            *dist.entry(format!("override-fields:{}", ov.data.len().min(6))).or_insert(0) += 1;
            ovs.push(ov);
        }
        profs.push(Prof { name: name.into(), level, ovs });
    }
    profs
}

fn render(profs: &[Prof], is_repo: bool) -> String {
    let mut s = String::new();
    if is_repo { s.push_str("[test-groups]\ng1 = { max-threads = 1 }\ng2 = { max-threads = 2 }\ng3 = { max-threads = 3 }\n\n"); }
    for p in profs {
        s.push_str(&format!("[profile.{}]\n", p.name));
        for (f, v) in &p.level { if *f < 9 { s.push_str(&toml_kv(*f, *v, false)); s.push('\n'); } }
        s.push_str(&format!("\n[profile.{}.junit]\n", p.name));
        if is_repo { s.push_str("path = \"junit.xml\"\n"); }
        for (f, v) in &p.level { if *f >= 9 { s.push_str(&toml_kv(*f, *v, false)); s.push('\n'); } }
        for o in &p.ovs {
            s.push_str(&format!("\n[[profile.{}.overrides]]\n", p.name));
            match (o.host, o.target) {
                (None, Some(t)) => s.push_str(&format!("platform = '{}'\n", PLATFORMS[t].0)),
                (Some(h), Some(t)) => s.push_str(&format!("platform = {{ host = '{}', target = '{}' }}\n", PLATFORMS[h].0, PLATFORMS[t].0)),
                (Some(h), None) => s.push_str(&format!("platform = {{ host = '{}' }}\n", PLATFORMS[h].0)),
                (None, None) => {}
            }
            if let Some(f) = o.filter { s.push_str(&format!("filter = '{}'\n", FILTERS[f].0)); }
            if o.default_filter { s.push_str("default-filter = 'test(a) | test(b)'\n"); }
            for (f, v) in &o.data { s.push_str(&toml_kv(*f, *v, true)); s.push('\n'); }
        }
        s.push('\n');
    }
    s
}

fn describe(profs: &[Prof], test: usize, with_target: bool) -> String {
    let ps: Vec<String> = profs.iter().map(|p| {
        let lvl = if p.level.is_empty() { ".".to_string() } else { p.level.iter().map(|(f, v)| format!("{}={}", f, v)).collect::<Vec<_>>().join(",") };
        let ovs = if p.ovs.is_empty() { ".".to_string() } else { p.ovs.iter().map(|o| {
            let he = o.host.map_or(true, |h| PLATFORMS[h].1);
            let hte = o.target.map_or(true, |t| PLATFORMS[t].1);
            let te = if with_target { o.target.map_or(true, |t| PLATFORMS[t].2) } else { hte };
            let fo = o.filter.map_or(true, |f| FILTERS[f].1[test]);
            let d = if o.data.is_empty() { ".".to_string() } else { o.data.iter().map(|(f, v)| format!("{}={}", f, v)).collect::<Vec<_>>().join(",") };
            format!("{}{}{}{}:{}", he as u8, hte as u8, te as u8, fo as u8, d)
        }).collect::<Vec<_>>().join("+") };
        format!("{}~{}~{}", hexs(&p.name), lvl, ovs)
    }).collect();
    if ps.is_empty() { ".".into() } else { ps.join(";") }
}

fn main() {
    let args: Vec<String> = std::env::args().collect();
    let seed: u64 = args.get(1).map(|s| s.parse().unwrap()).unwrap_or(1);
    let n: usize = args.get(2).map(|s| s.parse().unwrap()).unwrap_or(300);
    let dir = Utf8PathBuf::from(args.get(3).cloned().unwrap_or_else(|| "/verif/.build/settings-tmp".into()));
    std::fs::create_dir_all(dir.join(".config")).unwrap();
    let mut rng = Rng::new(seed ^ 0x5E77);
    let out = std::io::stdout();
    let mut out = std::io::BufWriter::new(out.lock());
    let mut dist: BTreeMap<String, u64> = BTreeMap::new();
    let gspec = GraphSpec::random(&mut rng, 2, 0);
    let graph = gspec.build();
    let pcx = ParseContext::new(&graph);
    let pkg = graph.workspace().iter().next().unwrap();
    let host = Platform::new(HOST, TargetFeatures::Unknown).unwrap();
    let target = Platform::new(TARGET, TargetFeatures::Unknown).unwrap();
    let unavailable = || PlatformLibdir::from_rustc_stdout(None);
    let bp_cross = BuildPlatforms { host: HostPlatform { platform: host.clone(), libdir: unavailable() },
        target: Some(TargetPlatform::new(TargetTriple { platform: target.clone(), source: TargetTripleSource::CliOption, location: TargetDefinitionLocation::Builtin }, unavailable())) };
    let bp_native = BuildPlatforms { host: HostPlatform { platform: host.clone(), libdir: unavailable() }, target: None };
    let experimental = BTreeSet::new();
    let settings_codes = |s: &nextest_runner::config::TestSettings| -> Vec<u64> {
        vec![
            s.priority().to_i8() as i64 as u64,
            match s.threads_required() { ThreadsRequired::Count(n) => n as u64, ThreadsRequired::NumCpus => 1000, ThreadsRequired::NumTestThreads => 1001 },
            s.run_extra_args().len() as u64,
            s.retries().count() as u64,
            { let d = format!("{:?}", s.slow_timeout()); let i = d.find("period: ").unwrap() + 8; let r = &d[i..]; let j = r.find('s').unwrap(); r[..j].parse::<u64>().unwrap_or(9999) },
            s.leak_timeout().as_millis() as u64,
            match s.test_group() { TestGroup::Global => 0, TestGroup::Custom(g) => g.as_str()[1..].parse().unwrap_or(99) },
            match s.success_output() { TestOutputDisplay::Immediate => 0, TestOutputDisplay::ImmediateFinal => 1, TestOutputDisplay::Final => 2, TestOutputDisplay::Never => 3 },
            match s.failure_output() { TestOutputDisplay::Immediate => 0, TestOutputDisplay::ImmediateFinal => 1, TestOutputDisplay::Final => 2, TestOutputDisplay::Never => 3 },
            s.junit_store_success_output() as u64,
            s.junit_store_failure_output() as u64,
        ]
    };
    // built-in values: resolve with a repository config that only enables JUnit
    let builtin: Vec<u64> = {
        std::fs::write(dir.join(".config/nextest.toml"), "[profile.default.junit]\npath = \"junit.xml\"\n").unwrap();
        let cfg = NextestConfig::from_sources(dir.clone(), &pcx, None, &[][..], &experimental).unwrap();
        let prof = cfg.profile("default").unwrap().apply_build_platforms(&bp_native);
        let id = RustBinaryId::new("w0");
        let q = TestQuery { binary_query: BinaryQuery { package_id: pkg.id(), binary_id: &id, binary_name: "w0", kind: &RustTestBinaryKind::LIB, platform: BuildPlatform::Target }, test_name: "a" };
        settings_codes(&prof.settings_for(&q))
    };
    let builtin_s = builtin.iter().map(|v| v.to_string()).collect::<Vec<_>>().join(",");
    for case in 0..n {
        let ntools = rng.below(4) as usize;
        let repo = gen_file(&mut rng, true, &mut dist);
        let tools: Vec<Vec<Prof>> = (0..ntools).map(|_| gen_file(&mut rng, false, &mut dist)).collect();
        *dist.entry(format!("tool-configs:{}", ntools)).or_insert(0) += 1;
        std::fs::write(dir.join(".config/nextest.toml"), render(&repo, true)).unwrap();
        let mut tfiles = Vec::new();
        for (i, t) in tools.iter().enumerate() {
            let p = dir.join(format!("tool{}.toml", i));
            std::fs::write(&p, render(t, false)).unwrap();
            tfiles.push(ToolConfigFile { tool: format!("t{}", i), config_file: p });
        }
        let cfg = match NextestConfig::from_sources(dir.clone(), &pcx, None, &tfiles[..], &experimental) {
            Ok(c) => c,
            Err(e) => { eprintln!("config error in case {}: {:?}", case, e); *dist.entry("config-error".into()).or_insert(0) += 1; continue; }
        };
        for _ in 0..4 {
            let pname = *rng.pick(&["default", "ci", "p2"]);
            let with_target = rng.chance(2, 3);
            let is_host = rng.chance(1, 3);
            let test = rng.below(3) as usize;
            let prof = match cfg.profile(pname) { Ok(p) => p, Err(_) => continue };
            let prof = prof.apply_build_platforms(if with_target { &bp_cross } else { &bp_native });
            let id = RustBinaryId::new("w0");
            let q = TestQuery { binary_query: BinaryQuery { package_id: pkg.id(), binary_id: &id, binary_name: "w0", kind: &RustTestBinaryKind::LIB,
                platform: if is_host { BuildPlatform::Host } else { BuildPlatform::Target } }, test_name: TESTS[test] };
            let got = settings_codes(&prof.settings_for(&q));
            // files lowest priority first: tools from last to first, then the repository config
            let mut files: Vec<String> = tools.iter().rev().map(|t| describe(t, test, with_target)).collect();
            files.push(describe(&repo, test, with_target));
            *dist.entry(format!("profile:{}", pname)).or_insert(0) += 1;
            writeln!(out, "settings {} {} - {} {}\t{}", hexs(pname), is_host as u8, builtin_s, files.join("|"), got.iter().map(|v| v.to_string()).collect::<Vec<_>>().join(",")).unwrap();
        }
    }
    out.flush().unwrap();
    let d: Vec<String> = dist.iter().map(|(k, v)| format!("{}={}", k, v)).collect();
    eprintln!("DIST {}", d.join(" "));
}
