//! In-process correspondence stream for C16's display side: which part of a failing test's output is picked as the
//! description (`TestOutputErrorSlice::heuristic_extract`, `highlight_end`) and what the display reporter writes for its
//! two streams, colour on and off (`write_test_single_output_with_description`, `write_output_with_highlight`,
//! `write_output_with_trailing_newline`), through the real `Reporter`.
//! Lines: `hext <stdout|none> <stderr|none>\t<none | P|E|S:start:slice>`, `hlend <bytes>\t<n>`,
//! `show <c|n> <stdout> <stderr> <prefix> <suffix> <strip table> <verdict data>\t<stdout region>;<stderr region>`.
//! The ANSI stripper is not modelled: its result on every piece it can be handed is given to the model as a table.
use bytes::Bytes;
use camino::Utf8PathBuf;
use chrono::Local;
use nextest_filtering::ParseContext;
use nextest_metadata::{BuildPlatform, FilterMatch, RustBinaryId, RustTestBinaryKind, RustTestCaseSummary};
use nextest_runner::config::NextestConfig;
use nextest_runner::list::{RustBuildMeta, RustTestSuite, RustTestSuiteStatus, TestList};
use nextest_runner::platform::BuildPlatforms;
use nextest_runner::reporter::events::*;
use nextest_runner::reporter::structured::StructuredReporter;
use nextest_runner::reporter::{highlight_end, ReporterBuilder, ReporterStderr, TestOutputDisplay, TestOutputErrorSlice};
use nextest_runner::reuse_build::PathMapper;
use nextest_runner::test_output::{ChildExecutionOutput, ChildOutput, ChildSplitOutput};
use std::collections::{BTreeMap, BTreeSet};
use std::io::Write;
use std::time::Duration;
use verif_harness::{graphgen::GraphSpec, hexs::*, rng::Rng};

const POOL: &[&[u8]] = &[
    b"thread 'main' panicked at src/lib.rs:1:1:\n", b"thread 'a\nb' panicked at x", b"thread '' panicked at ", b"thread '\xc3\xa9' panicked at y\n",
    b"thread '", b"' panicked at ", b"thread 'q", b"'", b"Error: boom\n", b"Error: ", b"Error:", b"\nError:", b"Error:x", b"error: ",
    b"note: test did not panic as expected", b"note: test did not panic", b"\r\n", b"\n", b"\n\n", b"\r", b" ", b"\t", b"\x0b", b"\x0c",
    b"\xc2\xa0", b"\xe2\x80\xa8", b"\xe3\x80\x80", b"\xc2\x85", b"\xe2\x80\x8a", b"\xe2\x80\x8b", b"\xe1\x9a\x80", b"\xe2\x81\x9f", b"\xe2\x80\xaf", b"\x80\xa8", b"\xe2\x80",
    b"x", b"line", b"assertion failed", b"\x1b[31m", b"\x1b[0m", b"\x1b[", b"\x1b]0;t\x07", b"\xff", b"\xc2", b"\xf0\x9f\x98\x80", b"\xf4\x90\x80\x80", b"\xed\xa0\x80", b"\x00", b"\x7f",
];

fn gen(rng: &mut Rng, dist: &mut BTreeMap<String, u64>) -> Vec<u8> {
    let n = match rng.below(10) { 0 => 0, 1 => 1, _ => rng.range(2, 9) } as usize;
    let mut v = Vec::new();
    for _ in 0..n {
        // the first 15 pieces are the ones the heuristics look for: drawn more often, and often at a line start
        let p: &[u8] = if rng.chance(2, 5) { if rng.chance(1, 2) && !v.is_empty() { v.push(b'\n'); } POOL[rng.below(15) as usize] } else { POOL[rng.below(POOL.len() as u64) as usize] };
        v.extend_from_slice(p);
    }
    if v.is_empty() { *dist.entry("stream:empty".into()).or_insert(0) += 1; }
    v
}

fn opt_hex(b: &Option<Vec<u8>>) -> String { match b { None => "none".into(), Some(b) => hex(b) } }

fn hext(so: Option<&[u8]>, se: Option<&[u8]>) -> String {
    match TestOutputErrorSlice::heuristic_extract(so, se) {
        None => "none".into(),
        Some(TestOutputErrorSlice::PanicMessage { stderr_subslice: s }) => format!("P:{}:{}", s.start, hex(s.slice)),
        Some(TestOutputErrorSlice::ErrorStr { stderr_subslice: s }) => format!("E:{}:{}", s.start, hex(s.slice)),
        Some(TestOutputErrorSlice::ShouldPanic { stdout_subslice: s }) => format!("S:{}:{}", s.start, hex(s.slice)),
    }
}

fn find(h: &[u8], n: &[u8], from: usize) -> Option<usize> { if n.is_empty() || h.len() < n.len() { return None; } (from..=h.len() - n.len()).find(|&i| &h[i..i + n.len()] == n) }

/// every piece of `s` the displayer can hand to the stripper: the whole stream with a final newline ensured, and every line
/// — or what is left of it after cutting bytes of white-space encodings off its end, since a description ends where its
/// trailing white space begins — without its `\r` / `\n` ending
fn strip_candidates(s: &[u8], out: &mut BTreeSet<Vec<u8>>) {
    let mut whole = s.to_vec();
    if whole.last() == Some(&b'\n') { whole.pop(); }
    whole.push(b'\n');
    out.insert(whole);
    let ws_byte = |c: u8| matches!(c, 0x09..=0x0d | 0x20 | 0x80..=0x8a | 0x85 | 0x9a | 0x9f | 0xa0 | 0xa8 | 0xa9 | 0xaf | 0xc2 | 0xe1 | 0xe2 | 0xe3);
    for line in s.split(|&c| c == b'\n') {
        let mut cur = line.to_vec();
        loop {
            let mut l = cur.clone();
            while matches!(l.last(), Some(b'\r') | Some(b'\n')) { l.pop(); }
            out.insert(l);
            match cur.last() { Some(&c) if ws_byte(c) => { cur.pop(); } _ => break }
        }
    }
}

fn main() {
    let args: Vec<String> = std::env::args().collect();
    let seed: u64 = args.get(1).map(|s| s.parse().unwrap()).unwrap_or(1);
    let n: usize = args.get(2).map(|s| s.parse().unwrap()).unwrap_or(200);
    let dir = Utf8PathBuf::from(args.get(3).cloned().unwrap_or_else(|| "/verif/.build/display-tmp".into()));
    let _ = std::fs::remove_dir_all(&dir);
    std::fs::create_dir_all(dir.join(".config")).unwrap();
    std::fs::write(dir.join(".config/nextest.toml"), "").unwrap();
    let mut rng = Rng::new(seed ^ 0xd15b1a7);
    let out = std::io::stdout();
    let mut out = std::io::BufWriter::new(out.lock());
    std::panic::set_hook(Box::new(|_| {}));
    let mut dist: BTreeMap<String, u64> = BTreeMap::new();
    let gspec = GraphSpec::random(&mut rng, 2, 0);
    let graph = gspec.build();
    let pcx = ParseContext::new(&graph);
    let pkg = graph.workspace().iter().next().unwrap();
    let mut cases: BTreeMap<String, RustTestCaseSummary> = BTreeMap::new();
    cases.insert("t".to_string(), RustTestCaseSummary { ignored: false, filter_match: FilterMatch::Matches });
    let suites = vec![RustTestSuite {
        binary_id: RustBinaryId::new("w0::b0"), binary_path: "/fake/bin".into(), package: pkg, binary_name: "b".into(), kind: RustTestBinaryKind::TEST,
        cwd: "/fake".into(), build_platform: BuildPlatform::Target, non_test_binaries: BTreeSet::new(),
        status: RustTestSuiteStatus::Listed { test_cases: cases },
    }];
    let bp = BuildPlatforms::new_with_no_target().unwrap();
    let meta = RustBuildMeta::new("/fake", bp.clone()).map_paths(&PathMapper::noop());
    let list = TestList::verif_from_suites(suites, "/fake".into(), meta);
    let cfg = NextestConfig::from_sources(dir.clone(), &pcx, None, &[][..], &BTreeSet::new()).expect("config");
    let profile = cfg.profile("default").unwrap().apply_build_platforms(&bp);
    let instances: Vec<_> = list.iter_tests().collect();
    let t = instances[0];

    for _case in 0..n {
        let so = if rng.chance(1, 12) { None } else { Some(gen(&mut rng, &mut dist)) };
        let se = if rng.chance(1, 12) { None } else if rng.chance(1, 8) { so.clone() } else { Some(gen(&mut rng, &mut dist)) };
        // ---- the description
        let d = hext(so.as_deref(), se.as_deref());
        *dist.entry(format!("description:{}", &d[..1])).or_insert(0) += 1;
        writeln!(out, "hext {} {}\t{}", opt_hex(&so), opt_hex(&se), d).unwrap();
        for s in [&so, &se].into_iter().flatten() {
            writeln!(out, "hlend {}\t{}", hex(s), highlight_end(s)).unwrap();
        }
        // ---- what the reporter shows
        let (o, e) = (so.clone().unwrap_or_default(), se.clone().unwrap_or_default());
        for colorized in [true, false] {
            let mut buf: Vec<u8> = Vec::new();
            let mut stats = RunStats::default();
            let panicked = std::panic::catch_unwind(std::panic::AssertUnwindSafe(|| {
                let mut builder = ReporterBuilder::default();
                builder.set_colorize(colorized);
                let mut reporter = builder.build(&list, &profile, ReporterStderr::Buffer(&mut buf), StructuredReporter::new());
                let now = Local::now().fixed_offset();
                let res = ExecutionResult::Fail { abort_status: None, leaked: false };
                let output = ChildExecutionOutput::Output { result: Some(res),
                    output: ChildOutput::Split(ChildSplitOutput { stdout: Some(Bytes::from(o.clone()).into()), stderr: Some(Bytes::from(e.clone()).into()) }), errors: None };
                let statuses = vec![ExecuteStatus { retry_data: RetryData { attempt: 1, total_attempts: 1 }, output, result: res, start_time: now, time_taken: Duration::from_secs(1), is_slow: false, delay_before_start: Duration::ZERO }];
                let run_statuses = ExecutionStatuses::verif_new(statuses);
                stats.verif_on_test_finished(&run_statuses);
                let ev = TestEvent { timestamp: now, elapsed: Duration::from_millis(5), kind: TestEventKind::TestFinished { test_instance: t, success_output: TestOutputDisplay::Never, failure_output: TestOutputDisplay::Immediate,
                    junit_store_success_output: false, junit_store_failure_output: false, run_statuses, current_stats: stats, running: 0, cancel_state: None } };
                reporter.report_event(unsafe { std::mem::transmute::<TestEvent<'_>, TestEvent<'_>>(ev) }).expect("report_event");
                reporter.finish();
            })).is_err();
            if panicked {
                *dist.entry("show:reporter-panicked".into()).or_insert(0) += 1;
                writeln!(out, "show {} {} {} - - . -:-:-/-:-:-\tpanic;panic", if colorized { "c" } else { "n" }, hex(&o), hex(&e)).unwrap();
                continue;
            }
            // the two regions: after the header line that names the stream, up to the next header / the closing blank line
            let line_end = |from: usize| find(&buf, b"\n", from).map(|i| i + 1);
            let oh = if o.is_empty() { None } else { find(&buf, b"STDOUT:", 0) };
            let eh = if e.is_empty() { None } else { find(&buf, b"STDERR:", oh.unwrap_or(0)) };
            let line_start = |at: usize| buf[..at].iter().rposition(|&c| c == b'\n').map(|i| i + 1).unwrap_or(0);
            let end_all = if buf.ends_with(b"\n\n") { buf.len() - 1 } else { buf.len() };
            let oreg: Vec<u8> = match oh { None => vec![], Some(h) => { let s = line_end(h).unwrap_or(buf.len()); let en = eh.map(line_start).unwrap_or(end_all); buf[s..en.max(s)].to_vec() } };
            let ereg: Vec<u8> = match eh { None => vec![], Some(h) => { let s = line_end(h).unwrap_or(buf.len()); buf[s..end_all.max(s)].to_vec() } };
            // the failure style, read off the status line (`<prefix>        FAIL<suffix>`)
            let (pre, suf) = if colorized {
                let f = find(&buf, b"FAIL", 0).unwrap_or(0);
                let m_before = buf[..f].iter().rposition(|&c| c == b'm').unwrap_or(0);
                let esc_before = buf[..m_before].iter().rposition(|&c| c == 0x1b).unwrap_or(0);
                let m_after = find(&buf, b"m", f + 4).unwrap_or(f + 4);
                (buf[esc_before..=m_before].to_vec(), buf[f + 4..=m_after].to_vec())
            } else { (vec![], vec![]) };
            let mut cands = BTreeSet::new();
            strip_candidates(&o, &mut cands); strip_candidates(&e, &mut cands);
            let table: Vec<String> = cands.iter().map(|c| format!("{}={}", hex(c), hex(&strip_ansi_escapes::strip(c)))).collect();
            if cands.iter().any(|c| strip_ansi_escapes::strip(c) != *c) { *dist.entry("show:stripper-changes-something".into()).or_insert(0) += 1; }
            *dist.entry(format!("show:{}", if colorized { "colour" } else { "plain" })).or_insert(0) += 1;
            // for the verdict when the model disagrees (not used otherwise): everything once more through the stripper — what is
            // shown, the captured bytes with a newline added, and with a final newline ensured
            let st = |b: &[u8]| hex(&strip_ansi_escapes::strip(b));
            let oracle = |reg: &[u8], cap: &[u8]| { let mut a = cap.to_vec(); a.push(b'\n'); let mut b = cap.to_vec(); if b.last() == Some(&b'\n') { b.pop(); } b.push(b'\n'); format!("{}:{}:{}", st(reg), st(&a), st(&b)) };
            writeln!(out, "show {} {} {} {} {} {} {}/{}\t{};{}", if colorized { "c" } else { "n" }, hex(&o), hex(&e), hex(&pre), hex(&suf), table.join(","), oracle(&oreg, &o), oracle(&ereg, &e), hex(&oreg), hex(&ereg)).unwrap();
        }
    }
    out.flush().unwrap();
    let d: Vec<String> = dist.iter().map(|(k, v)| format!("{}={}", k, v)).collect();
    eprintln!("DIST {}", d.join(" "));
}
