//! In-process correspondence stream for C17: the real `Reporter` (display reporter + JUnit aggregator) is fed
//! synthetic `TestEvent`s — finished tests of several binaries with 1–4 attempts each (every attempt before the last
//! one failed, as the executor guarantees), finished setup scripts, other events — with `RunStats` folded by the real
//! `on_test_finished` / `on_setup_script_finished` (guarded hooks).  The JUnit file it writes is parsed back
//! (quick-xml) into a canonical form; the `Summary` line is read from the display reporter's buffer.
//! Line: `junit <events>\t<suites> ## <summary> ## <statistics>`; the Lean model answers the same from `Model/Junit`.
use bytes::Bytes;
use camino::Utf8PathBuf;
use chrono::Local;
use nextest_filtering::ParseContext;
use nextest_metadata::{BuildPlatform, FilterMatch, MismatchReason, RustBinaryId, RustTestBinaryKind, RustTestCaseSummary};
use nextest_runner::config::{NextestConfig, VerifScriptId as ScriptId};
use nextest_runner::list::{RustBuildMeta, RustTestSuite, RustTestSuiteStatus, TestList};
use nextest_runner::platform::BuildPlatforms;
use nextest_runner::reporter::events::*;
use nextest_runner::reporter::structured::StructuredReporter;
use nextest_runner::reporter::{ReporterBuilder, ReporterStderr, TestOutputDisplay};
use nextest_runner::reuse_build::PathMapper;
use nextest_runner::test_output::{ChildExecutionOutput, ChildOutput, ChildSplitOutput};
use quick_xml::events::Event;
use std::collections::{BTreeMap, BTreeSet};
use std::io::Write;
use std::time::Duration;
use verif_harness::{graphgen::GraphSpec, hexs::*, rng::Rng};

#[derive(Debug, Default)]
struct Node { name: String, attrs: Vec<(String, String)>, children: Vec<Node>, text: String }
impl Node {
    fn attr(&self, k: &str) -> Option<&str> { self.attrs.iter().find(|(a, _)| a == k).map(|(_, v)| v.as_str()) }
    fn child(&self, n: &str) -> Option<&Node> { self.children.iter().find(|c| c.name == n) }
}

fn parse_xml(xml: &str) -> Result<Node, String> {
    let mut reader = quick_xml::Reader::from_str(xml);
    let mut stack: Vec<Node> = vec![Node { name: "#root".into(), ..Default::default() }];
    let mk = |e: &quick_xml::events::BytesStart| -> Result<Node, String> {
        let mut n = Node { name: String::from_utf8_lossy(e.name().as_ref()).into_owned(), ..Default::default() };
        for a in e.attributes() {
            let a = a.map_err(|e| format!("attr: {e}"))?;
            n.attrs.push((String::from_utf8_lossy(a.key.as_ref()).into_owned(), a.unescape_value().map_err(|e| format!("attr value: {e}"))?.into_owned()));
        }
        Ok(n)
    };
    loop {
        match reader.read_event() {
            Ok(Event::Start(e)) => stack.push(mk(&e)?),
            Ok(Event::Empty(e)) => { let n = mk(&e)?; stack.last_mut().unwrap().children.push(n); }
            Ok(Event::End(_)) => { let n = stack.pop().ok_or("unbalanced")?; stack.last_mut().ok_or("unbalanced")?.children.push(n); }
            Ok(Event::Text(t)) => { let s = t.unescape().map_err(|e| format!("text: {e}"))?; stack.last_mut().unwrap().text.push_str(&s); }
            Ok(Event::CData(t)) => { stack.last_mut().unwrap().text.push_str(&String::from_utf8_lossy(&t)); }
            Ok(Event::Eof) => break,
            Ok(_) => {}
            Err(e) => return Err(format!("xml: {e}")),
        }
    }
    if stack.len() != 1 { return Err("unbalanced at eof".into()); }
    Ok(stack.pop().unwrap())
}

const RES: &[&str] = &["P", "L", "F", "Fl", "FS9", "FSl6", "X", "T"];
fn res_of(s: &str) -> ExecutionResult {
    match s {
        "P" => ExecutionResult::Pass, "L" => ExecutionResult::Leak,
        "F" => ExecutionResult::Fail { abort_status: None, leaked: false }, "Fl" => ExecutionResult::Fail { abort_status: None, leaked: true },
        "FS9" => ExecutionResult::Fail { abort_status: Some(AbortStatus::UnixSignal(9)), leaked: false },
        "FSl6" => ExecutionResult::Fail { abort_status: Some(AbortStatus::UnixSignal(6)), leaked: true },
        "X" => ExecutionResult::ExecFail, _ => ExecutionResult::Timeout,
    }
}
fn is_success(s: &str) -> bool { s == "P" || s == "L" }

fn output(result: ExecutionResult, marker: &str) -> ChildExecutionOutput {
    ChildExecutionOutput::Output {
        result: Some(result),
        output: ChildOutput::Split(ChildSplitOutput { stdout: Some(Bytes::from(format!("out-{marker}\n")).into()), stderr: Some(Bytes::from(format!("err-{marker}\n")).into()) }),
        errors: None,
    }
}

/// which attempt an element carries, from its `time` attribute (attempt i has time_taken = i+1 seconds)
fn attempt_of(n: &Node) -> String {
    match n.attr("time").and_then(|t| t.parse::<f64>().ok()) { Some(t) if t >= 1.0 => format!("{}", t.round() as i64 - 1), _ => "?".into() }
}

/// `1` = both streams stored and they are this event's attempt `att`; `0` = none stored; otherwise a description
fn stored_of(n: &Node, ev: usize, att: &str) -> String {
    let o = n.child("system-out").map(|c| c.text.clone()); let e = n.child("system-err").map(|c| c.text.clone());
    match (o, e) {
        (None, None) => "0".into(),
        (Some(o), Some(e)) => if o == format!("out-{ev}-{att}\n") && e == format!("err-{ev}-{att}\n") { "1".into() } else { format!("!wrong-output:{}:{}", hexs(&o), hexs(&e)) },
        (o, e) => format!("!partial:{}:{}", o.is_some(), e.is_some()),
    }
}

fn main() {
    let args: Vec<String> = std::env::args().collect();
    let seed: u64 = args.get(1).map(|s| s.parse().unwrap()).unwrap_or(1);
    let n: usize = args.get(2).map(|s| s.parse().unwrap()).unwrap_or(200);
    let dir = Utf8PathBuf::from(args.get(3).cloned().unwrap_or_else(|| "/verif/.build/junit-tmp".into()));
    let _ = std::fs::remove_dir_all(&dir);
    std::fs::create_dir_all(dir.join(".config")).unwrap();
    std::fs::write(dir.join(".config/nextest.toml"), "[profile.default.junit]\npath = \"junit.xml\"\n").unwrap();
    let mut rng = Rng::new(seed ^ 0x17c17);
    let out = std::io::stdout();
    let mut out = std::io::BufWriter::new(out.lock());
    let mut dist: BTreeMap<String, u64> = BTreeMap::new();
    let gspec = GraphSpec::random(&mut rng, 2, 0);
    let graph = gspec.build();
    let pcx = ParseContext::new(&graph);
    let pkg = graph.workspace().iter().next().unwrap();
    let bins = ["w0::b0", "w0::b1", "w1::it", "w1::z z"];
    let names = ["a", "m::b", "with space", "q\"uote", "x<y>&z", "t5", "t6", "日本"];
    let scripts = ["db", "seed-data", "s3"];
    let mut suites = Vec::new();
    for b in bins.iter() {
        let mut cases: BTreeMap<String, RustTestCaseSummary> = BTreeMap::new();
        for nm in names.iter() { cases.insert(nm.to_string(), RustTestCaseSummary { ignored: false, filter_match: FilterMatch::Matches }); }
        suites.push(RustTestSuite {
            binary_id: RustBinaryId::new(b), binary_path: "/fake/bin".into(), package: pkg, binary_name: "b".into(), kind: RustTestBinaryKind::TEST,
            cwd: "/fake".into(), build_platform: BuildPlatform::Target, non_test_binaries: BTreeSet::new(),
            status: RustTestSuiteStatus::Listed { test_cases: cases },
        });
    }
    let bp = BuildPlatforms::new_with_no_target().unwrap();
    let meta = RustBuildMeta::new("/fake", bp.clone()).map_paths(&PathMapper::noop());
    let list = TestList::verif_from_suites(suites, "/fake".into(), meta);
    let cfg = NextestConfig::from_sources(dir.clone(), &pcx, None, &[][..], &BTreeSet::new()).expect("config");
    let profile = cfg.profile("default").unwrap().apply_build_platforms(&bp);
    let junit_path = profile.junit().expect("junit configured").path().to_owned();
    let instances: Vec<_> = list.iter_tests().collect();
    let script_args: Vec<String> = vec!["--flag".into(), "a b".into()];

    for case in 0..n {
        let _ = std::fs::remove_file(&junit_path);
        let nev = rng.range(0, 9) as usize;
        let mut used: BTreeSet<usize> = BTreeSet::new();
        let mut used_scripts: BTreeSet<usize> = BTreeSet::new();
        let mut buf: Vec<u8> = Vec::new();
        let mut req: Vec<String> = Vec::new();
        let mut stats = RunStats::default();
        {
            let mut reporter = ReporterBuilder::default().build(&list, &profile, ReporterStderr::Buffer(&mut buf), StructuredReporter::new());
            let now = Local::now().fixed_offset();
            let mut send = |reporter: &mut nextest_runner::reporter::Reporter<'_>, kind: TestEventKind<'_>| {
                // SAFETY of lifetimes: everything borrowed lives for the whole of main
                let ev = TestEvent { timestamp: now, elapsed: Duration::from_millis(5), kind };
                reporter.report_event(unsafe { std::mem::transmute::<TestEvent<'_>, TestEvent<'_>>(ev) }).expect("report_event");
            };
            for j in 0..nev {
                match rng.below(10) {
                    0 | 1 if used_scripts.len() < scripts.len() => {
                        let mut k = rng.below(scripts.len() as u64) as usize; while used_scripts.contains(&k) { k = (k + 1) % scripts.len(); }
                        used_scripts.insert(k);
                        let r = *rng.pick(RES); let (ss, sf) = (rng.chance(1, 2), rng.chance(1, 2));
                        let status = SetupScriptExecuteStatus { output: output(res_of(r), &format!("{j}-0")), result: res_of(r), start_time: now, time_taken: Duration::from_secs(1), is_slow: false, env_map: None };
                        stats.verif_on_setup_script_finished(&status);
                        req.push(format!("S:{}:{}:{}{}", hexs(scripts[k]), r, ss as u8, sf as u8));
                        send(&mut reporter, TestEventKind::SetupScriptFinished { index: k, total: scripts.len(), script_id: ScriptId::new(scripts[k].into()).unwrap(), command: "cmd", args: &script_args,
                            junit_store_success_output: ss, junit_store_failure_output: sf, no_capture: false, run_status: status });
                        *dist.entry("ev:script".into()).or_insert(0) += 1;
                    }
                    2 => {
                        let t = instances[rng.below(instances.len() as u64) as usize];
                        req.push("O".into());
                        send(&mut reporter, TestEventKind::TestSkipped { test_instance: t, reason: MismatchReason::String });
                        *dist.entry("ev:other".into()).or_insert(0) += 1;
                    }
                    _ => {
                        let mut k = rng.below(instances.len() as u64) as usize; while used.contains(&k) { k = (k + 1) % instances.len(); }
                        used.insert(k);
                        let t = instances[k];
                        let total = rng.range(1, 4) as usize;
                        // attempts: failures until the last one, which is anything; stop early on success
                        let na = rng.range(1, total as u64) as usize;
                        let mut rs: Vec<&str> = Vec::new();
                        for i in 0..na {
                            if i + 1 < na { rs.push(*rng.pick(&RES[2..])); } else { rs.push(if na < total { *rng.pick(&RES[..2]) } else { *rng.pick(RES) }); }
                        }
                        let (ss, sf) = (rng.chance(1, 2), rng.chance(1, 2));
                        let statuses: Vec<ExecuteStatus> = rs.iter().enumerate().map(|(i, r)| ExecuteStatus {
                            retry_data: RetryData { attempt: i + 1, total_attempts: total }, output: output(res_of(r), &format!("{j}-{i}")), result: res_of(r),
                            start_time: now, time_taken: Duration::from_secs(i as u64 + 1), is_slow: false, delay_before_start: Duration::ZERO }).collect();
                        let run_statuses = ExecutionStatuses::verif_new(statuses);
                        stats.verif_on_test_finished(&run_statuses);
                        req.push(format!("T:{}:{}:{}:{}{}", hexs(t.suite_info.binary_id.as_str()), hexs(t.name), rs.join(","), ss as u8, sf as u8));
                        *dist.entry(format!("attempts:{}", na)).or_insert(0) += 1;
                        *dist.entry(format!("final:{}", if is_success(rs[na - 1]) { if na > 1 { "flaky" } else { "pass" } } else { "fail" })).or_insert(0) += 1;
                        send(&mut reporter, TestEventKind::TestFinished { test_instance: t, success_output: TestOutputDisplay::Never, failure_output: TestOutputDisplay::Never,
                            junit_store_success_output: ss, junit_store_failure_output: sf, run_statuses, current_stats: stats, running: 0, cancel_state: None });
                    }
                }
            }
            send(&mut reporter, TestEventKind::RunFinished { run_id: quick_junit::ReportUuid::nil(), start_time: now, elapsed: Duration::from_secs(3), run_stats: stats });
            reporter.finish();
        }
        // ---- read the report back
        let xml = std::fs::read_to_string(&junit_path).unwrap_or_default();
        let canon = match parse_xml(&xml) {
            Err(e) => format!("xml-error:{}", hexs(&e)),
            Ok(root) => {
                let Some(ts) = root.child("testsuites") else { writeln!(out, "junit {}\tno-testsuites-element", req.join(";")).unwrap(); continue; };
                // event index of a (suite, case name): from the request
                let mut parts = Vec::new();
                for s in ts.children.iter().filter(|c| c.name == "testsuite") {
                    let sname = s.attr("name").unwrap_or("");
                    let (kind, id) = match sname.strip_prefix("@setup-script:") { Some(i) => ("s", i), None => ("b", sname) };
                    let mut cs = Vec::new();
                    for c in s.children.iter().filter(|c| c.name == "testcase") {
                        let cname = c.attr("name").unwrap_or("");
                        // which event produced it
                        let ev = req.iter().position(|r| { let f: Vec<&str> = r.split(':').collect(); (kind == "b" && f[0] == "T" && f[1] == hexs(id) && f[2] == hexs(cname)) || (kind == "s" && f[0] == "S" && f[1] == hexs(id) && cname == id) }).unwrap_or(usize::MAX);
                        let status = if let Some(f) = c.child("failure") { format!("f:{}", hexs(f.attr("type").unwrap_or(""))) } else if let Some(e) = c.child("error") { format!("e:{}", hexs(e.attr("type").unwrap_or(""))) } else { "ok".into() };
                        let att = attempt_of(c);
                        let classname_ok = c.attr("classname") == Some(sname);
                        let mut rr = Vec::new();
                        for r in c.children.iter() {
                            let tag = match r.name.as_str() { "flakyFailure" => "ff", "flakyError" => "fe", "rerunFailure" => "rf", "rerunError" => "re", _ => continue };
                            let ra = attempt_of(r);
                            rr.push(format!("{}~{}~{}~{}", tag, hexs(r.attr("type").unwrap_or("")), ra, stored_of(r, ev, &ra)));
                        }
                        cs.push(format!("{}/{}/{}/{}/{}{}", hexs(cname), status, att, stored_of(c, ev, &att), if rr.is_empty() { "-".to_string() } else { rr.join(";") }, if classname_ok { "" } else { "/!classname" }));
                    }
                    parts.push(format!("{}:{}:{}:{}:{}:{}", kind, hexs(id), s.attr("tests").unwrap_or("?"), s.attr("failures").unwrap_or("?"), s.attr("errors").unwrap_or("?"), cs.join(",")));
                }
                format!("{}@{}:{}:{}", parts.join("|"), ts.attr("tests").unwrap_or("?"), ts.attr("failures").unwrap_or("?"), ts.attr("errors").unwrap_or("?"))
            }
        };
        // ---- the summary line
        let text = String::from_utf8_lossy(&buf);
        let summary = text.lines().find(|l| l.contains("Summary [")).map(|l| {
            let num_before = |word: &str| -> u64 { l.find(word).and_then(|i| l[..i].trim_end().rsplit(|c: char| !c.is_ascii_digit()).next().and_then(|d| d.parse().ok())).unwrap_or(0) };
            let ran = l.split("] ").nth(1).and_then(|r| r.split(|c: char| !c.is_ascii_digit()).next().and_then(|d| d.parse::<u64>().ok())).unwrap_or(0);
            format!("sum:{}:{}:{}:{}:{}:{}:{}", ran, num_before(" passed"), num_before(" flaky"), num_before(" leaky"), num_before(" failed"), num_before(" exec failed"), num_before(" timed out"))
        }).unwrap_or_else(|| "no-summary".into());
        let st = format!("st:{}:{}:{}:{}:{}:{}:{}:{}:{}", stats.finished_count, stats.passed, stats.flaky, stats.leaky, stats.failed, stats.exec_failed, stats.timed_out, stats.setup_scripts_finished_count,
            stats.setup_scripts_failed + stats.setup_scripts_exec_failed + stats.setup_scripts_timed_out);
        writeln!(out, "junit {}\t{} ## {} ## {}", if req.is_empty() { ".".to_string() } else { req.join(";") }, canon, summary, st).unwrap();
        let _ = case;
    }
    // ---- hostile output: `xmltext <kind> <hex stdout> <hex strip_str(stdout)> <hex stderr> <hex strip_str(stderr)>\t<hex system-out read back>;<hex system-err read back>`
    // (one failing test whose streams are hostile texts — split with either stream missing, combined, or not started —, stored; the model answers
    // which text goes to which element (`set_execute_status_props`) and what `xml_string` makes of it)
    let pool: &[&str] = &["a", "Z", " ", "<", ">", "&", "\"", "'", "]]>", "<![CDATA[", "&amp;", "\t", "\n", "\r", "\r\n", "\x00", "\x01", "\x07", "\x08", "\x0b", "\x0c", "\x0e", "\x1f", "\x7f",
        "\x1b", "\x1b[31m", "\x1b[0m", "\x1b]0;t\x07", "\x1b[", "\u{80}", "\u{85}", "\u{9b}", "\u{9b}1m", "\u{9f}", "\u{a0}", "\u{fffe}", "\u{ffff}", "\u{fffd}", "\u{fffc}", "\u{fdd0}", "\u{d7ff}", "\u{e000}",
        "\u{10000}", "\u{1f600}", "\u{1fffe}", "\u{10ffff}", "日本", "thread 'main' panicked at src/lib.rs:1:1:\n", "error: "];
    let mut hostile = |rng: &mut Rng, dist: &mut BTreeMap<String, u64>| -> (Vec<u8>, String, String) {
        let len = rng.range(0, 14) as usize;
        let mut bytes: Vec<u8> = Vec::new();
        for _ in 0..len {
            if rng.chance(1, 40) { bytes.push(*rng.pick(&[0xffu8, 0xc0, 0xed, 0x80])); *dist.entry("xml:invalid-utf8".into()).or_insert(0) += 1; }
            else { bytes.extend_from_slice(rng.pick(pool).as_bytes()); }
        }
        let s = String::from_utf8_lossy(&bytes).into_owned();
        let stripped = strip_ansi_escapes::strip_str(&s);
        for (k, f) in [("xml:c0", (|c: char| (c as u32) < 0x20 && c != '\n' && c != '\t' && c != '\r') as fn(char) -> bool), ("xml:esc", |c| c == '\x1b'), ("xml:c1", |c| (0x80..=0x9f).contains(&(c as u32))),
                       ("xml:nonchar", |c| c == '\u{fffe}' || c == '\u{ffff}'), ("xml:markup", |c| c == '<' || c == '&' || c == ']')] {
            if s.chars().any(f) { *dist.entry(k.into()).or_insert(0) += 1; }
        }
        if stripped != s { *dist.entry("xml:ansi-changes".into()).or_insert(0) += 1; }
        (bytes, s, stripped)
    };
    const KINDS: &[&str] = &["split", "split", "split", "outonly", "erronly", "neither", "combined", "combined", "starterr"];
    for _case in 0..n {
        let _ = std::fs::remove_file(&junit_path);
        let kind = *rng.pick(KINDS);
        *dist.entry(format!("xml:kind:{kind}")).or_insert(0) += 1;
        let (obytes, s, stripped) = hostile(&mut rng, &mut dist);
        let (ebytes, s2, stripped2) = hostile(&mut rng, &mut dist);
        let mut buf: Vec<u8> = Vec::new();
        let t = instances[rng.below(instances.len() as u64) as usize];
        let mut stats = RunStats::default();
        {
            let mut reporter = ReporterBuilder::default().build(&list, &profile, ReporterStderr::Buffer(&mut buf), StructuredReporter::new());
            let now = Local::now().fixed_offset();
            let res = if kind == "starterr" { ExecutionResult::ExecFail } else { ExecutionResult::Fail { abort_status: None, leaked: false } };
            let so = || Some(Bytes::from(obytes.clone()).into()); let se = || Some(Bytes::from(ebytes.clone()).into());
            let split = |o, e| ChildExecutionOutput::Output { result: Some(res), output: ChildOutput::Split(ChildSplitOutput { stdout: o, stderr: e }), errors: None };
            let output = match kind {
                "split" => split(so(), se()), "outonly" => split(so(), None), "erronly" => split(None, se()), "neither" => split(None, None),
                "combined" => ChildExecutionOutput::Output { result: Some(res), output: ChildOutput::Combined { output: Bytes::from(obytes.clone()).into() }, errors: None },
                _ => ChildExecutionOutput::StartError(nextest_runner::errors::ChildStartError::Spawn(std::sync::Arc::new(std::io::Error::other("no such file")))),
            };
            let statuses = vec![ExecuteStatus { retry_data: RetryData { attempt: 1, total_attempts: 1 }, output, result: res, start_time: now, time_taken: Duration::from_secs(1), is_slow: false, delay_before_start: Duration::ZERO }];
            let run_statuses = ExecutionStatuses::verif_new(statuses);
            stats.verif_on_test_finished(&run_statuses);
            let mut send = |reporter: &mut nextest_runner::reporter::Reporter<'_>, kind: TestEventKind<'_>| {
                let ev = TestEvent { timestamp: now, elapsed: Duration::from_millis(5), kind };
                reporter.report_event(unsafe { std::mem::transmute::<TestEvent<'_>, TestEvent<'_>>(ev) }).expect("report_event");
            };
            send(&mut reporter, TestEventKind::TestFinished { test_instance: t, success_output: TestOutputDisplay::Never, failure_output: TestOutputDisplay::Never,
                junit_store_success_output: false, junit_store_failure_output: true, run_statuses, current_stats: stats, running: 0, cancel_state: None });
            send(&mut reporter, TestEventKind::RunFinished { run_id: quick_junit::ReportUuid::nil(), start_time: now, elapsed: Duration::from_secs(3), run_stats: stats });
            reporter.finish();
        }
        let xml = std::fs::read_to_string(&junit_path).unwrap_or_default();
        let got = match parse_xml(&xml) {
            Err(e) => format!("xml-error:{}", hexs(&e)),
            Ok(root) => {
                let case = root.child("testsuites").and_then(|ts| ts.children.iter().find(|c| c.name == "testsuite")).and_then(|s| s.child("testcase"));
                match case {
                    None => "no-testcase".into(),
                    Some(c) => {
                        let o = c.child("system-out").map(|n| hexs(&n.text)).unwrap_or_else(|| "none".into());
                        let e = c.child("system-err").map(|n| hexs(&n.text)).unwrap_or_else(|| "none".into());
                        // every character of every text and attribute of the document must be an XML 1.0 Char
                        fn bad(n: &Node) -> bool {
                            let ok = |c: char| matches!(c as u32, 0x9 | 0xa | 0xd | 0x20..=0xd7ff | 0xe000..=0xfffd | 0x10000..=0x10ffff);
                            !n.text.chars().all(ok) || n.attrs.iter().any(|(_, v)| !v.chars().all(ok)) || n.children.iter().any(bad)
                        }
                        format!("{};{}{}", o, e, if bad(&root) { ";!non-xml-char" } else { "" })
                    }
                }
            }
        };
        writeln!(out, "xmltext {} {} {} {} {}\t{}", kind, hexs(&s), hexs(&stripped), hexs(&s2), hexs(&stripped2), got).unwrap();
    }
    out.flush().unwrap();
    let d: Vec<String> = dist.iter().map(|(k, v)| format!("{}={}", k, v)).collect();
    eprintln!("DIST {}", d.join(" "));
}
