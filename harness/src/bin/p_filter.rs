//! In-process correspondence stream for C04 / C13: name patterns, filter composition,
//! binary-level shortcut, `process_output`, partitioners, xxh64.
//! Output: one line per case, `<request>\t<impl output>`.
use camino::Utf8PathBuf;
use guppy::graph::PackageGraph;
use nextest_metadata::BuildPlatform;
use nextest_filtering::{CompiledExpr, EvalContext, Filterset, FiltersetKind, ParseContext, TestQuery};
use nextest_metadata::{FilterMatch, MismatchReason, RustBinaryId, RustTestBinaryKind};
use nextest_runner::{
    list::{RustTestArtifact, RustTestSuiteStatus, TestList},
    partition::PartitionerBuilder,
    test_filter::{BinaryMismatchReason, FilterBinaryMatch, FilterBound, RunIgnored, TestFilterBuilder, TestFilterPatterns},
};
use std::collections::{BTreeMap, BTreeSet};
use std::io::Write;
use verif_harness::{graphgen::GraphSpec, hexs::*, rng::Rng};

const EXPR_POOL: &[&str] = &[
    "all()", "none()", "test(a)", "test(=foo)", "test(~bar)", "test(/^m::/)", "test(#*b*)",
    "not test(foo)", "kind(lib)", "kind(test)", "kind(=bin)", "binary(w0)", "binary(#w*)", "binary_id(~w)",
    "platform(host)", "platform(target)", "package(w0)", "package(w1)", "deps(w0)", "rdeps(w1)", "package(#w*)",
    "test(a) & kind(lib)", "test(a) | package(w1)", "platform(host) - test(b)", "not (kind(lib) and test(foo))",
    "default()", "default() & test(a)", "not default()", "kind(lib) or kind(test)", "package(w0) + test(x)",
    "none() | test(foobar)", "all() - test(a)", "!platform(target)", "test(a) and not test(b)", "binary_id(w1)",
];
const DEFAULT_POOL: &[&str] = &[
    "all()", "all()", "none()", "test(a)", "not test(foo)", "kind(lib)", "package(w0)", "platform(host)",
    "test(a) | kind(test)", "not (test(b) & kind(lib))", "binary(w0)", "test(~x) or package(w1)",
];
const NAME_ATOMS: &[&str] = &["a", "b", "foo", "bar", "foobar", "x", "m::", "test_", "t", "é", "日本", " ", "-", "--exact", "'", "\""];

fn gen_name(rng: &mut Rng) -> String {
    if rng.chance(1, 60) { return String::new(); }
    let n = rng.range(1, 4);
    (0..n).map(|_| *rng.pick(NAME_ATOMS)).collect()
}

fn reason_letter(r: MismatchReason) -> &'static str {
    match r {
        MismatchReason::Ignored => "i",
        MismatchReason::String => "s",
        MismatchReason::Expression => "e",
        MismatchReason::Partition => "p",
        MismatchReason::DefaultFilter => "d",
        _ => "?",
    }
}
fn fm_letter(f: FilterMatch) -> &'static str {
    match f { FilterMatch::Matches => "M", FilterMatch::Mismatch { reason } => reason_letter(reason) }
}
fn bin_str(b: FilterBinaryMatch) -> &'static str {
    match b {
        FilterBinaryMatch::Definite => "D",
        FilterBinaryMatch::Possible => "P",
        FilterBinaryMatch::Mismatch { reason: BinaryMismatchReason::Expression } => "Me",
        FilterBinaryMatch::Mismatch { reason: BinaryMismatchReason::DefaultSet } => "Md",
    }
}
fn trit(t: Option<bool>) -> &'static str { match t { Some(true) => "1", Some(false) => "0", None => "?" } }

struct Ops { text: String, pats: TestFilterPatterns, shape: &'static str }

fn gen_ops(rng: &mut Rng) -> Ops {
    // the corners (skip-only, exact-only, skip-exact-only) are weighted up
    let shape = *rng.pick(&["empty", "subs", "skiponly", "skipexactonly", "exactonly", "mixed", "mixed", "mixed"]);
    let mut subs: Vec<String> = Vec::new();
    let mut ops: Vec<(char, String)> = Vec::new();
    let pat = |rng: &mut Rng| -> String {
        if rng.chance(1, 25) { String::new() } else if rng.chance(1, 2) { rng.pick(NAME_ATOMS).to_string() } else { gen_name(rng) }
    };
    match shape {
        "empty" => {}
        "subs" => { for _ in 0..rng.range(1, 3) { subs.push(pat(rng)); } }
        "skiponly" => { for _ in 0..rng.range(1, 3) { ops.push(('k', pat(rng))); } }
        "skipexactonly" => { for _ in 0..rng.range(1, 3) { ops.push(('x', gen_name(rng))); } }
        "exactonly" => { for _ in 0..rng.range(1, 3) { ops.push(('e', gen_name(rng))); } }
        _ => {
            if rng.chance(1, 2) { for _ in 0..rng.range(1, 2) { subs.push(pat(rng)); } }
            for _ in 0..rng.range(1, 5) {
                let k = *rng.pick(&['s', 'e', 'k', 'x']);
                let p = if k == 'e' || k == 'x' { gen_name(rng) } else { pat(rng) };
                ops.push((k, p));
            }
        }
    }
    let mut pats = TestFilterPatterns::new(subs.clone());
    let mut text = format!("N:{}", hexlist(&subs));
    for (k, p) in &ops {
        match k {
            's' => pats.add_substring_pattern(p.clone()),
            'e' => pats.add_exact_pattern(p.clone()),
            'k' => pats.add_skip_pattern(p.clone()),
            _ => pats.add_skip_exact_pattern(p.clone()),
        }
        text.push_str(&format!("/{}:{}", k, hexs(p)));
    }
    Ops { text, pats, shape }
}

fn main() {
    let args: Vec<String> = std::env::args().collect();
    let seed: u64 = args.get(1).map(|s| s.parse().unwrap()).unwrap_or(1);
    let n: usize = args.get(2).map(|s| s.parse().unwrap()).unwrap_or(1000);
    let mut rng = Rng::new(seed);
    let out = std::io::stdout();
    let mut out = std::io::BufWriter::new(out.lock());
    let mut dist: BTreeMap<String, u64> = BTreeMap::new();
    let mut bump = |k: &str| { *dist.entry(k.to_string()).or_insert(0) += 1; };

    // xxh64 vectors
    for i in 0..(n / 4).max(50) {
        let len = match i % 5 { 0 => rng.below(8), 1 => rng.range(8, 31), 2 => rng.range(32, 40), 3 => rng.range(40, 200), _ => rng.below(70) } as usize;
        let bytes: Vec<u8> = (0..len).map(|_| rng.below(256) as u8).collect();
        writeln!(out, "xxh {}\t{}", hex(&bytes), xxhash_rust::xxh64::xxh64(&bytes, 0)).unwrap();
    }

    let mut case = 0;
    while case < n {
        // a fresh small graph every 20 cases
        let gspec = GraphSpec::random(&mut rng, 3, 1);
        let graph: PackageGraph = gspec.build();
        let pcx = ParseContext::new(&graph);
        let ws: Vec<_> = graph.workspace().iter().collect();
        for _ in 0..20 {
            if case >= n { break; }
            case += 1;
            let pkg = **rng.pick(&ws.iter().collect::<Vec<_>>());
            let kind = rng.pick(&[RustTestBinaryKind::LIB, RustTestBinaryKind::TEST, RustTestBinaryKind::BIN, RustTestBinaryKind::BENCH, RustTestBinaryKind::PROC_MACRO]).clone();
            let bname = if kind == RustTestBinaryKind::LIB || kind == RustTestBinaryKind::PROC_MACRO { pkg.name().to_string() } else { format!("it{}", rng.below(2)) };
            let platform = if rng.chance(1, 3) { BuildPlatform::Host } else { BuildPlatform::Target };
            let artifact = RustTestArtifact {
                binary_id: RustBinaryId::from_parts(pkg.name(), &kind, &bname),
                package: pkg,
                binary_path: Utf8PathBuf::from("/fake/bin"),
                binary_name: bname,
                kind,
                non_test_binaries: BTreeSet::new(),
                cwd: Utf8PathBuf::from("/fake"),
                build_platform: platform,
            };
            // filtersets
            let nex = *rng.pick(&[0usize, 0, 1, 1, 2, 3]);
            let mut exprs = Vec::new();
            for _ in 0..nex {
                let s = *rng.pick(EXPR_POOL);
                match Filterset::parse(s.to_string(), &pcx, FiltersetKind::Test) {
                    Ok(f) => exprs.push(f),
                    Err(_) => {}
                }
            }
            let nex = exprs.len();
            let dflt_s = *rng.pick(DEFAULT_POOL);
            let dflt: CompiledExpr = Filterset::parse(dflt_s.to_string(), &pcx, FiltersetKind::DefaultFilter).expect("default").compiled;
            let ecx = EvalContext { default_filter: &dflt };
            let bound = if rng.chance(2, 3) { FilterBound::DefaultSet } else { FilterBound::All };
            let bound_s = match bound { FilterBound::DefaultSet => "d", FilterBound::All => "a" };
            let ri = *rng.pick(&[RunIgnored::Default, RunIgnored::Default, RunIgnored::Only, RunIgnored::All]);
            let ri_s = match ri { RunIgnored::Default => "d", RunIgnored::Only => "o", RunIgnored::All => "a" };
            let (part, part_s) = match rng.below(5) {
                0 | 1 => (None, "-".to_string()),
                k => {
                    let total = rng.range(1, 5);
                    let shard = rng.range(1, total);
                    if k == 2 { (Some(PartitionerBuilder::Hash { shard, total_shards: total }), format!("h:{}:{}", shard, total)) }
                    else { (Some(PartitionerBuilder::Count { shard, total_shards: total }), format!("c:{}:{}", shard, total)) }
                }
            };
            let ops = gen_ops(&mut rng);
            bump(&format!("patterns:{}", ops.shape));
            bump(&format!("run-ignored:{}", ri_s));
            bump(&format!("partition:{}", &part_s[..1]));
            bump(&format!("nexprs:{}", nex));
            let builder = TestFilterBuilder::new(ri, part.clone(), ops.pats.clone(), exprs.clone()).expect("builder");

            // listing
            let ntests = rng.below(9) as usize;
            let mut names: BTreeSet<String> = BTreeSet::new();
            for _ in 0..ntests { names.insert(gen_name(&mut rng)); }
            let names: Vec<String> = names.into_iter().collect();
            let ign: Vec<bool> = names.iter().map(|_| rng.chance(1, 3)).collect();
            // libtest: the plain listing has all tests; custom harnesses may list only non-ignored
            let libtest_style = rng.chance(4, 5);
            bump(if libtest_style { "listing:libtest" } else { "listing:disjoint" });
            let mut non_l: Vec<&String> = names.iter().zip(&ign).filter(|(_, i)| libtest_style || !**i).map(|(n, _)| n).collect();
            let mut ign_l: Vec<&String> = names.iter().zip(&ign).filter(|(_, i)| **i).map(|(n, _)| n).collect();
            // listing order is arbitrary: shuffle
            for l in [&mut non_l, &mut ign_l] {
                for i in (1..l.len()).rev() { let j = rng.below(i as u64 + 1) as usize; l.swap(i, j); }
            }
            let bq = artifact.to_binary_query();
            let entry = |n: &String| -> String {
                let q = TestQuery { binary_query: bq, test_name: n };
                let bits: String = if exprs.is_empty() { "_".into() } else { exprs.iter().map(|e| if e.matches_test(&q, &ecx) { '1' } else { '0' }).collect() };
                format!("{}:{}:{}", hexs(n), bits, if dflt.matches_test(&q, &ecx) { 1 } else { 0 })
            };
            let lst = |l: &Vec<&String>| -> String { if l.is_empty() { ".".into() } else { l.iter().map(|n| entry(n)).collect::<Vec<_>>().join(";") } };
            let to_out = |l: &Vec<&String>| -> String { l.iter().map(|n| format!("{}: test\n", n)).collect() };

            // binary-level verdict
            let trits: Vec<&str> = exprs.iter().map(|e| trit(e.matches_binary(&bq, &ecx))).collect();
            let dt = trit(dflt.matches_binary(&bq, &ecx));
            let bm = builder.filter_binary_match(&artifact, &ecx, bound);
            writeln!(out, "bin {} {} {}\t{}", bound_s, if trits.is_empty() { ".".to_string() } else { trits.join(",") }, dt, bin_str(bm)).unwrap();
            bump(&format!("binary:{}", bin_str(bm)));

            // all-shards monitor (C13): with every other setting fixed, run shards 1..n; every test must be
            // selected by exactly one shard iff some shard selects-or-partition-rejects it, and the set
            // of candidates (verdict M or p) must be the same in every shard.
            if let Some(pb) = &part {
                let (is_count, total) = match pb { PartitionerBuilder::Count { total_shards, .. } => (true, *total_shards), PartitionerBuilder::Hash { total_shards, .. } => (false, *total_shards), _ => (false, 1) };
                let mut hits: BTreeMap<String, u64> = BTreeMap::new();
                let mut cands: Vec<BTreeSet<String>> = Vec::new();
                let mut ok = true;
                for m in 1..=total {
                    let pbm = if is_count { PartitionerBuilder::Count { shard: m, total_shards: total } } else { PartitionerBuilder::Hash { shard: m, total_shards: total } };
                    let b = TestFilterBuilder::new(ri, Some(pbm), ops.pats.clone(), exprs.clone()).expect("builder");
                    let mut cs = BTreeSet::new();
                    if let Ok((_, suite)) = TestList::verif_process_binary(artifact.clone(), &b, &ecx, bound, &to_out(&non_l), &to_out(&ign_l)) {
                        if let RustTestSuiteStatus::Listed { test_cases } = suite.status {
                            for (n, c) in &test_cases {
                                match c.filter_match {
                                    FilterMatch::Matches => { *hits.entry(n.clone()).or_insert(0) += 1; cs.insert(n.clone()); }
                                    FilterMatch::Mismatch { reason: MismatchReason::Partition } => { hits.entry(n.clone()).or_insert(0); cs.insert(n.clone()); }
                                    _ => {}
                                }
                            }
                        }
                    }
                    cands.push(cs);
                }
                if hits.values().any(|&h| h != 1) { ok = false; }
                if cands.windows(2).any(|w| w[0] != w[1]) { ok = false; }
                let detail: Vec<String> = hits.iter().map(|(n, h)| format!("{}={}", hexs(n), h)).collect();
                writeln!(out, "mon shards-partition {} {} {} {} {} {} {}\t{}", ri_s, bound_s, part_s, ops.text, nex, lst(&non_l), lst(&ign_l),
                    if ok { "ok".to_string() } else { format!("FAIL hits:{}", detail.join(",")) }).unwrap();
            }

            // names with a newline cannot be listed (line based); none are generated.
            let req = format!("pout {} {} {} {} {} {} {}", ri_s, bound_s, part_s, ops.text, nex, lst(&non_l), lst(&ign_l));
            // Always run the per-test path (public `filter_match`, same two-pass structure is in the hook).
            let res = TestList::verif_process_binary(artifact.clone(), &builder, &ecx, bound, &to_out(&non_l), &to_out(&ign_l));
            match res {
                Ok((_, suite)) => match suite.status {
                    RustTestSuiteStatus::Listed { test_cases } => {
                        let s: Vec<String> = test_cases.iter().map(|(n, c)| format!("{}:{}:{}", hexs(n), if c.ignored { 1 } else { 0 }, fm_letter(c.filter_match))).collect();
                        if test_cases.values().any(|c| c.filter_match == FilterMatch::Matches) { bump("suite:some-selected"); } else { bump("suite:none-selected"); }
                        writeln!(out, "{}\t{}", req, if s.is_empty() { ".".to_string() } else { s.join(";") }).unwrap();
                    }
                    RustTestSuiteStatus::Skipped { .. } => {
                        // shortcut taken: soundness monitor — no test of this binary may match through the
                        // per-test path (fresh filters, as process_output would build them).
                        let mut any = false;
                        let mut f1 = builder.build();
                        let mut sorted_non = non_l.clone(); sorted_non.sort_unstable();
                        for n in &sorted_non { if f1.filter_match(&artifact, n, &ecx, bound, false) == FilterMatch::Matches { any = true; } }
                        let mut f2 = builder.build();
                        let mut sorted_ign = ign_l.clone(); sorted_ign.sort_unstable();
                        for n in &sorted_ign { if f2.filter_match(&artifact, n, &ecx, bound, true) == FilterMatch::Matches { any = true; } }
                        bump("suite:skipped-by-shortcut");
                        writeln!(out, "mon shortcut-sound {} {} {} {} {} {} {}\t{}", ri_s, bound_s, part_s, ops.text, nex, lst(&non_l), lst(&ign_l), if any { "FAIL unsound" } else { "ok" }).unwrap();
                    }
                },
                Err(e) => { writeln!(out, "{}\terror:{}", req, e).unwrap(); }
            }
        }
    }
    out.flush().unwrap();
    let d: Vec<String> = dist.iter().map(|(k, v)| format!("{}={}", k, v)).collect();
    eprintln!("DIST {}", d.join(" "));
}
