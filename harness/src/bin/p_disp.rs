//! In-process correspondence stream for the dispatcher (C01 C02 C10 C17 C18): random and adversarial
//! event sequences fed to the real `DispatcherContext` through the stepping hook.
use camino::Utf8PathBuf;
use nextest_filtering::ParseContext;
use nextest_metadata::{BuildPlatform, FilterMatch, RustBinaryId, RustTestBinaryKind, RustTestCaseSummary};
use nextest_runner::config::{ConfigExperimental, MaxFail, NextestConfig};
use nextest_runner::list::{RustTestSuite, RustTestSuiteStatus, TestInstance};
use nextest_runner::platform::BuildPlatforms;
use nextest_runner::reporter::events::{AbortStatus, ExecutionResult, FinalRunStats, RunStatsFailureKind};
use nextest_runner::runner::verif_stepper::{render_stats, StepEvent, StepOutcome, Stepper};
use std::collections::{BTreeMap, BTreeSet};
use std::io::Write;
use verif_harness::{graphgen::GraphSpec, rng::Rng};

fn gen_result(rng: &mut Rng) -> (ExecutionResult, &'static str) {
    match rng.below(12) {
        0 | 1 | 2 | 3 | 4 => (ExecutionResult::Pass, "P"),
        5 => (ExecutionResult::Leak, "L"),
        6 | 7 | 8 => (ExecutionResult::Fail { abort_status: None, leaked: false }, "F"),
        9 => (ExecutionResult::Fail { abort_status: Some(AbortStatus::UnixSignal(9)), leaked: false }, "FS9"),
        10 => (ExecutionResult::ExecFail, "X"),
        _ => (ExecutionResult::Timeout, "T"),
    }
}
fn gen_fail(rng: &mut Rng) -> (ExecutionResult, &'static str) {
    match rng.below(5) {
        0 | 1 => (ExecutionResult::Fail { abort_status: None, leaked: false }, "F"),
        2 => (ExecutionResult::Fail { abort_status: None, leaked: true }, "Fl"),
        3 => (ExecutionResult::ExecFail, "X"),
        _ => (ExecutionResult::Timeout, "T"),
    }
}

fn render(o: &StepOutcome) -> String {
    let d: Vec<String> = o.delivered.iter().map(|(u, r)| format!("{}:{}", u, r)).collect();
    format!("{}|{}|{}|{:?}|{}|{}|{}|{}", o.response, o.reply, o.emitted.join(";;"), o.cancel_state, render_stats(&o.stats), o.running, d.join(";;"),
        o.broadcast_count.map_or("-".to_string(), |n| n.to_string()))
}

fn final_str(f: FinalRunStats) -> String {
    let k = |k: RunStatsFailureKind| match k { RunStatsFailureKind::SetupScript => "SetupScript".to_string(), RunStatsFailureKind::Test { initial_run_count, not_run } => format!("Test({},{})", initial_run_count, not_run) };
    match f { FinalRunStats::Success => "Success".into(), FinalRunStats::NoTestsRun => "NoTestsRun".into(), FinalRunStats::Cancelled(x) => format!("Cancelled({})", k(x)), FinalRunStats::Failed(x) => format!("Failed({})", k(x)) }
}

#[derive(Clone, Copy, PartialEq)]
enum TS { NotStarted, Running(usize, usize, bool /*rx closed*/), Delay(usize, usize), Done }

fn main() {
    let args: Vec<String> = std::env::args().collect();
    let seed: u64 = args.get(1).map(|s| s.parse().unwrap()).unwrap_or(1);
    let n: usize = args.get(2).map(|s| s.parse().unwrap()).unwrap_or(300);
    let dir = Utf8PathBuf::from(args.get(3).cloned().unwrap_or_else(|| "/verif/.build/disp-tmp".into()));
    std::fs::create_dir_all(dir.join(".config")).unwrap();
    std::panic::set_hook(Box::new(|_| {}));
    let mut rng = Rng::new(seed ^ 0xD15B);
    let out = std::io::stdout();
    let mut out = std::io::BufWriter::new(out.lock());
    let mut dist: BTreeMap<String, u64> = BTreeMap::new();
    let gspec = GraphSpec::random(&mut rng, 1, 0);
    let graph = gspec.build();
    let pcx = ParseContext::new(&graph);
    let pkg = graph.workspace().iter().next().unwrap();
    // setup script configs come from a real config file
    std::fs::write(dir.join(".config/nextest.toml"), "experimental = [\"setup-scripts\"]\n[script.s0]\ncommand = \"true\"\n[script.s1]\ncommand = \"true\"\n[script.s2]\ncommand = \"true\"\n").unwrap();
    let mut exp = BTreeSet::new();
    exp.insert(ConfigExperimental::SetupScripts);
    let cfg = NextestConfig::from_sources(dir.clone(), &pcx, None, &[][..], &exp).expect("config");
    let profile = cfg.profile("default").unwrap().apply_build_platforms(&BuildPlatforms::new_with_no_target().unwrap());
    let scripts: Vec<_> = profile.script_config().iter().collect();
    // eight tests in one suite
    let names: Vec<String> = (0..8).map(|i| format!("t{}", i)).collect();
    let case_summary = RustTestCaseSummary { ignored: false, filter_match: FilterMatch::Matches };
    let suite = RustTestSuite {
        binary_id: RustBinaryId::new("w0"), binary_path: "/fake/bin".into(), package: pkg, binary_name: "w0".into(), kind: RustTestBinaryKind::LIB,
        cwd: "/fake".into(), build_platform: BuildPlatform::Target, non_test_binaries: BTreeSet::new(),
        status: RustTestSuiteStatus::Listed { test_cases: names.iter().map(|n| (n.clone(), case_summary.clone())).collect() },
    };
    let tests: Vec<TestInstance> = names.iter().map(|n| TestInstance { name: n, suite_info: &suite, test_info: &case_summary }).collect();

    for _case in 0..n {
        let ntests = rng.range(0, 6) as usize;
        let initial = if rng.chance(1, 10) { rng.range(0, 8) as usize } else { ntests };
        let (mf, mf_s) = match rng.below(5) { 0 => (MaxFail::All, "a".to_string()), 1 | 2 => (MaxFail::Count(1), "1".to_string()), k => (MaxFail::Count(k as usize - 1), (k - 1).to_string()) };
        let mut st = vec![TS::NotStarted; 8];
        let nscripts = if rng.chance(1, 3) { rng.range(1, 3) as usize } else { 0 };
        let mut script_next = 0usize; let mut script_running = false;
        let mut stepper = Stepper::new(tests.clone(), initial, mf);
        let mut evs: Vec<String> = Vec::new();
        let mut outs: Vec<String> = Vec::new();
        let mut panicked = false;
        let steps = rng.range(1, 30);
        let mut sigs = 0;
        for _ in 0..steps {
            // choose an event: mostly valid with respect to the simulated units
            let adversarial = rng.chance(1, 25);
            let i = rng.below(ntests.max(1) as u64) as usize;
            let (code, ev): (String, StepEvent) = if adversarial {
                *dist.entry("events:adversarial".into()).or_insert(0) += 1;
                match rng.below(6) {
                    0 => (format!("S:{}", i), StepEvent::Started(i)),
                    1 => { let (r, c) = gen_result(&mut rng); (format!("F:{}:{}:0", i, c), StepEvent::Finished(i, r, false, 1, 1)) }
                    2 => { let (r, c) = gen_fail(&mut rng); (format!("A:{}:{}:0", i, c), StepEvent::AttemptFailedWillRetry(i, r, false, 1, 2)) }
                    3 => (format!("R:{}:2:3", i), StepEvent::RetryStarted(i, 2, 3)),
                    4 => { let (r, c) = gen_result(&mut rng); ("sF:0:3:".to_string() + c, StepEvent::ScriptFinished(scripts[0].0.clone(), scripts[0].1, 0, 3, r)) }
                    _ => ("sS:0:3".to_string(), StepEvent::ScriptStarted(scripts[0].0.clone(), scripts[0].1, 0, 3)),
                }
            } else {
                let k = rng.below(100);
                if script_next < nscripts && !script_running && k < 60 {
                    script_running = true;
                    (format!("sS:{}:{}", script_next, nscripts), StepEvent::ScriptStarted(scripts[script_next].0.clone(), scripts[script_next].1, script_next, nscripts))
                } else if script_running && k < 70 {
                    if rng.chance(1, 3) { ("sC".to_string(), StepEvent::ScriptCloseRx) } else {
                        script_running = false; script_next += 1;
                        let (r, c) = if rng.chance(3, 4) { (ExecutionResult::Pass, "P") } else { gen_fail(&mut rng) };
                        (format!("sF:{}:{}:{}", script_next - 1, nscripts, c), StepEvent::ScriptFinished(scripts[script_next - 1].0.clone(), scripts[script_next - 1].1, script_next - 1, nscripts, r))
                    }
                } else if k < 30 {
                    match st[i] {
                        TS::NotStarted => { if rng.chance(1, 8) { st[i] = TS::Done; (format!("K:{}", i), StepEvent::Skipped(i)) } else { let total = rng.range(1, 3) as usize; st[i] = TS::Running(1, total, false); (format!("S:{}", i), StepEvent::Started(i)) } }
                        TS::Delay(a, t) => { st[i] = TS::Running(a + 1, t, false); (format!("R:{}:{}:{}", i, a + 1, t), StepEvent::RetryStarted(i, a + 1, t)) }
                        _ => ("E".to_string(), StepEvent::InputEnter),
                    }
                } else if k < 65 {
                    match st[i] {
                        TS::Running(a, t, closed) => {
                            let slow = rng.chance(1, 5);
                            let (r, c) = gen_result(&mut rng);
                            if !r.is_success() && a < t && rng.chance(3, 4) {
                                st[i] = TS::Delay(a, t);
                                (format!("A:{}:{}:{}", i, c, slow as u8), StepEvent::AttemptFailedWillRetry(i, r, slow, a, t))
                            } else if !closed && rng.chance(2, 3) {
                                st[i] = TS::Running(a, t, true);
                                (format!("C:{}", i), StepEvent::CloseRx(i))
                            } else {
                                st[i] = TS::Done;
                                (format!("F:{}:{}:{}", i, c, slow as u8), StepEvent::Finished(i, r, slow, a, t))
                            }
                        }
                        TS::Delay(a, t) => { st[i] = TS::Done; let (r, c) = gen_fail(&mut rng); let _ = (a, t); (format!("F:{}:{}:0", i, c), StepEvent::Finished(i, r, false, a, t)) }
                        _ => ("I".to_string(), StepEvent::Info),
                    }
                } else if k < 72 {
                    if sigs < 2 || rng.chance(1, 6) { sigs += 1; let s = rng.below(4) as u8; (format!("X:{}", s), StepEvent::Shutdown(s)) } else { ("E".to_string(), StepEvent::InputEnter) }
                } else if k < 78 { ("RC".to_string(), StepEvent::ReportCancel) }
                else if k < 86 { ("T".to_string(), StepEvent::Stop) }
                else if k < 94 { ("U".to_string(), StepEvent::Continue) }
                else if k < 97 { ("I".to_string(), StepEvent::Info) }
                else { ("E".to_string(), StepEvent::InputEnter) }
            };
            *dist.entry(format!("event:{}", code.split(':').next().unwrap())).or_insert(0) += 1;
            evs.push(code);
            let res = std::panic::catch_unwind(std::panic::AssertUnwindSafe(|| stepper.step(ev)));
            match res {
                Ok(o) => outs.push(render(&o)),
                Err(_) => { outs.push("panic".to_string()); panicked = true; *dist.entry("result:panic".into()).or_insert(0) += 1; break; }
            }
        }
        if !panicked {
            let f = stepper.run_stats().summarize_final();
            *dist.entry(format!("final:{}", final_str(f).split('(').next().unwrap())).or_insert(0) += 1;
            outs.push(format!("FINAL {}", final_str(f)));
        }
        if panicked { std::mem::forget(stepper); }
        writeln!(out, "disp {} {} {}\t{}", initial, mf_s, evs.join(","), outs.join(" ## ")).unwrap();
    }
    // exhaustive small grid for summarize_final through the public API: every counter in {0,1,2}
    out.flush().unwrap();
    let d: Vec<String> = dist.iter().map(|(k, v)| format!("{}={}", k, v)).collect();
    eprintln!("DIST {}", d.join(" "));
}
