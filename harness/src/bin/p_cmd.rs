//! In-process correspondence streams for C15:
//!  * `shjoin` / `shsplit`: the real `shell_words::{join, split}` (the crate version nextest is locked to)
//!    on adversarial word lists and raw strings;
//!  * `cmd`: the real `TestInstance::make_command` (argv, `create_command` with and without the
//!    double-spawn launcher, working directory, every environment write of `TestCommand::new` on top
//!    of a hostile inherited environment and a hostile Cargo `[env]` table), through the guarded
//!    hook `verif_make_command`.  The launcher's own re-parse (`DoubleSpawnOpts::exec`:
//!    `shell_words::split` of the single joined argument) is replayed here on what was spawned.
use camino::Utf8PathBuf;
use nextest_metadata::{BuildPlatform, FilterMatch, RustBinaryId, RustTestBinaryKind, RustTestCaseSummary};
use nextest_runner::cargo_config::{CargoConfigs, EnvironmentMap};
use nextest_runner::double_spawn::DoubleSpawnInfo;
use nextest_runner::list::{RustBuildMeta, RustTestSuite, RustTestSuiteStatus, TestExecuteContext, TestList};
use nextest_runner::platform::BuildPlatforms;
use nextest_runner::reuse_build::PathMapper;
use nextest_runner::target_runner::TargetRunner;
use serde_json::json;
use std::collections::{BTreeMap, BTreeSet};
use std::io::Write;
use verif_harness::{hexs::*, rng::Rng};

const ALPHABET: &[char] = &[
    'a', 'b', 'Z', '0', ' ', ' ', '\t', '\n', '\'', '\'', '"', '"', '\\', '\\', '$', '`', '#', '*', '?', '[', ']', '~', '˜', '=', '%',
    '-', 'é', '日', '|', '&', ';', '(', ')', '<', '>', '!', '{', '}', '\r', '\u{10ffff}', '\u{a0}', ',', '/', ':', '@', '^',
];

fn word(rng: &mut Rng, maxlen: u64) -> String {
    let n = rng.below(maxlen + 1);
    (0..n).map(|_| *rng.pick(ALPHABET)).collect()
}

fn hexwords(ws: &[String]) -> String { hexlist(ws) }

fn os(s: &std::ffi::OsStr) -> String { s.to_string_lossy().into_owned() }

fn main() {
    let args: Vec<String> = std::env::args().collect();
    let seed: u64 = args.get(1).map(|s| s.parse().unwrap()).unwrap_or(1);
    let n: usize = args.get(2).map(|s| s.parse().unwrap()).unwrap_or(500);
    let dir = Utf8PathBuf::from(args.get(3).cloned().unwrap_or_else(|| "/verif/.build/cmd-tmp".into()));
    let mut rng = Rng::new(seed ^ 0xc15);
    let out = std::io::stdout();
    let mut out = std::io::BufWriter::new(out.lock());
    let mut dist: BTreeMap<String, u64> = BTreeMap::new();

    // ---------------------------------------------------------------- shell_words streams
    let fixed: Vec<Vec<String>> = vec![
        vec![], vec!["".into()], vec!["".into(), "".into()], vec!["'".into()], vec!["\n".into()], vec!["\n'".into()], vec!["a b".into()],
        vec!["#".into()], vec!["a#".into()], vec!["~".into()], vec!["\\".into()], vec!["\\\n".into()], vec!["\"".into()],
        vec!["--exact".into(), "it's \"x\" $y\n#z".into(), "--nocapture".into()],
    ];
    let mut lists: Vec<Vec<String>> = fixed;
    for _ in 0..n {
        let k = rng.below(5) as usize;
        lists.push((0..k).map(|_| word(&mut rng, 6)).collect());
    }
    for ws in &lists {
        let joined = shell_words::join(ws.iter().map(|s| s.as_str()));
        writeln!(out, "shjoin {}\t{}", hexwords(ws), hexs(&joined)).unwrap();
        let back = shell_words::split(&joined);
        let r = match &back { Ok(v) => format!("ok {}", hexwords(v)), Err(_) => "err".into() };
        writeln!(out, "shsplit {}\t{}", hexs(&joined), r).unwrap();
        // the property's clause, checked directly on the implementation
        writeln!(out, "mon shell-roundtrip {}\t{}", hexwords(ws), if back.as_ref().ok() == Some(ws) { "ok".into() } else { format!("split(join)={:?}", back) }).unwrap();
        *dist.entry(format!("words:{}", ws.len().min(4))).or_insert(0) += 1;
    }
    // raw strings: the parts of `split` that `join` never produces (double quotes, comments, line continuations)
    for _ in 0..n {
        let s = word(&mut rng, 12);
        let r = match shell_words::split(&s) { Ok(v) => { *dist.entry("raw-ok".into()).or_insert(0) += 1; format!("ok {}", hexwords(&v)) }, Err(_) => { *dist.entry("raw-err".into()).or_insert(0) += 1; "err".into() } };
        writeln!(out, "shsplit {}\t{}", hexs(&s), r).unwrap();
    }

    // ---------------------------------------------------------------- make_command stream
    let _ = std::fs::remove_dir_all(&dir);
    std::fs::create_dir_all(dir.join(".cargo")).unwrap();
    let pool_keys = ["NEXTEST", "NEXTEST_EXECUTION_MODE", "NEXTEST_PROFILE", "CARGO_MANIFEST_DIR", "CARGO_PKG_NAME", "CARGO_PKG_VERSION",
        "CARGO_PKG_AUTHORS", "CARGO_PKG_VERSION_PRE", "VT_FOO", "VT_BAR", "VT_BAZ", "NEXTEST_RUN_ID", "CARGO_PKG_DESCRIPTION"];
    let probe_extra = ["CARGO_PKG_VERSION_MAJOR", "CARGO_PKG_VERSION_MINOR", "CARGO_PKG_VERSION_PATCH", "CARGO_PKG_HOMEPAGE", "CARGO_PKG_LICENSE",
        "CARGO_PKG_LICENSE_FILE", "CARGO_PKG_REPOSITORY", "CARGO_PKG_RUST_VERSION", "VT_UNSET"];
    let values = ["1", "", "evil", "a b", "x=y", "it's", "日本", "\"q\"", "$HOME", "0"];
    let ncmd = (n / 2).max(20);
    for case in 0..ncmd {
        // package metadata (varies per case)
        let pre = *rng.pick(&["", "-beta.1", "-rc.2+build5"]);
        let version = format!("{}.{}.{}{}", rng.below(3), rng.below(12), rng.below(4), pre);
        let authors: Vec<String> = (0..rng.below(3)).map(|i| format!("A{} <a{}@x.org>", i, i)).collect();
        let pkgname = *rng.pick(&["alpha", "my-pkg", "x_y"]);
        let descr = *rng.pick(&[None, Some("a \"description\"\nwith lines"), Some("")]);
        let homepage = *rng.pick(&[None, Some("https://h.example/?a=b&c")]);
        let license = *rng.pick(&[None, Some("MIT OR Apache-2.0")]);
        let license_file = *rng.pick(&[None, Some("LICENSE file")]);
        let repository = *rng.pick(&[None, Some("https://r.example/x.git")]);
        let rust_version = *rng.pick(&[None, Some("1.81"), Some("1.70.1")]);
        let pdir = format!("/ws/{}", pkgname);
        let id = format!("path+file://{}#{}", pdir, version);
        let meta_json = json!({
            "packages": [{
                "name": pkgname, "version": version, "id": id, "license": license, "license_file": license_file,
                "description": descr, "source": null, "dependencies": [], "features": {},
                "targets": [{"kind": ["lib"], "crate_types": ["lib"], "name": pkgname.replace('-', "_"), "src_path": format!("{}/src/lib.rs", pdir), "edition": "2021", "doc": true, "doctest": true, "test": true}],
                "manifest_path": format!("{}/Cargo.toml", pdir), "metadata": null, "publish": null, "authors": authors,
                "categories": [], "keywords": [], "readme": null, "repository": repository, "homepage": homepage,
                "documentation": null, "edition": "2021", "links": null, "default_run": null, "rust_version": rust_version
            }],
            "workspace_members": [id], "workspace_default_members": [id],
            "resolve": {"nodes": [{"id": id, "dependencies": [], "deps": [], "features": []}], "root": null},
            "target_directory": "/ws/target", "version": 1, "workspace_root": "/ws", "metadata": null
        }).to_string();
        let graph = guppy::CargoMetadata::parse_json(meta_json).expect("metadata json").build_graph().expect("graph");
        let pkg = graph.workspace().iter().next().unwrap();

        // the test
        let tname: String = if rng.chance(1, 3) { (*rng.pick(&["plain", "m::t", "--exact", "-", "--", "a b", "it's", "q\"x\"", "back\\slash", "$HOME", "*", "tab\there", "nl\nx", "#c", "~", "=x", "日本::é", "' '"])).to_string() } else { let w = word(&mut rng, 8); if w.is_empty() { "e".into() } else { w } };
        let ignored = rng.chance(1, 3);
        let nextra = if rng.chance(1, 2) { 0 } else { rng.range(1, 3) } as usize;
        let extra: Vec<String> = (0..nextra).map(|_| if rng.chance(1, 2) { (*rng.pick(&["--test-threads=1", "--", "--ignored", "a b", "", "'", "$X"])).to_string() } else { word(&mut rng, 5) }).collect();
        let ds = rng.chance(1, 2);
        let profile = *rng.pick(&["default", "ci", "my profile", "p'q"]);
        let cwd = *rng.pick(&["/ws/alpha", "/ws/dir with space", "/ws/日本"]);
        let program = *rng.pick(&["/ws/target/debug/deps/t-0123", "/ws/target/debug/deps/with space-9", "/ws/target/it's"]);

        // inherited environment (this process's own), and Cargo's [env]
        for k in pool_keys.iter() { std::env::remove_var(k); }
        let mut inherited: Vec<(String, String)> = Vec::new();
        for k in pool_keys.iter() {
            if rng.chance(1, 3) { let v = (*rng.pick(&values)).to_string(); std::env::set_var(k, &v); inherited.push((k.to_string(), v)); }
        }
        let mut cargo: Vec<(String, String, Option<bool>)> = Vec::new();
        let mut toml = String::from("[env]\n");
        let mut cli: Vec<String> = Vec::new();
        for k in pool_keys.iter() {
            if rng.chance(2, 5) {
                let v = (*rng.pick(&values)).to_string();
                let force = *rng.pick(&[None, Some(true), Some(true), Some(false)]);
                let lit = format!("{:?}", v); // TOML basic string; our values need no escapes beyond \" which Debug produces
                let entry = match force { None => lit.clone(), Some(f) => format!("{{ value = {}, force = {} }}", lit, f) };
                if force.is_none() && rng.chance(1, 2) { cli.push(format!("env.{}={}", k, entry)); } else { toml.push_str(&format!("{} = {}\n", k, entry)); }
                cargo.push((k.to_string(), v, force));
            }
        }
        std::fs::write(dir.join(".cargo/config.toml"), &toml).unwrap();
        let configs = CargoConfigs::new_with_isolation(cli.iter().map(|s| s.as_str()), &dir, &dir, Vec::new()).expect("cargo configs");
        let envmap = EnvironmentMap::new(&configs);

        let mut cases: BTreeMap<String, RustTestCaseSummary> = BTreeMap::new();
        cases.insert(tname.clone(), RustTestCaseSummary { ignored, filter_match: FilterMatch::Matches });
        let suite = RustTestSuite {
            binary_id: RustBinaryId::new("alpha::t"), binary_path: program.into(), package: pkg, binary_name: "t".into(), kind: RustTestBinaryKind::TEST,
            cwd: cwd.into(), build_platform: BuildPlatform::Target, non_test_binaries: BTreeSet::new(),
            status: RustTestSuiteStatus::Listed { test_cases: cases },
        };
        let bp = BuildPlatforms::new_with_no_target().unwrap();
        let meta = RustBuildMeta::new("/ws/target", bp).map_paths(&PathMapper::noop());
        let mut list = TestList::verif_from_suites(vec![suite], "/ws".into(), meta);
        list.verif_set_env(envmap);
        let dsinfo = if ds { DoubleSpawnInfo::try_enable() } else { DoubleSpawnInfo::disabled() };
        let runner = TargetRunner::empty();
        let ctx = TestExecuteContext { profile_name: profile, double_spawn: &dsinfo, target_runner: &runner };
        let inst = list.iter_tests().next().unwrap();
        let cmd = inst.verif_make_command(&ctx, &list, &extra);

        let mut spawned: Vec<String> = vec![os(&cmd.program)];
        spawned.extend(cmd.args.iter().map(|a| os(a)));
        let exe = if ds { spawned[0].clone() } else { String::new() };
        // what the launcher does with what it is given (DoubleSpawnOpts::exec)
        let fin = if ds {
            if spawned.len() == 5 && spawned[1] == "__double-spawn" && spawned[2] == "--" {
                match shell_words::split(&spawned[4]) { Ok(a) => { let mut v = vec![spawned[3].clone()]; v.extend(a); hexwords(&v) } Err(_) => "err".into() }
            } else { "bad-launcher-argv".into() }
        } else { hexwords(&spawned) };
        let mut probes: Vec<String> = pool_keys.iter().map(|s| s.to_string()).collect();
        probes.extend(probe_extra.iter().map(|s| s.to_string()));
        let explicit: BTreeMap<String, Option<String>> = cmd.envs.iter().map(|(k, v)| (os(k), v.as_ref().map(|v| os(v)))).collect();
        let vals: Vec<String> = probes.iter().map(|k| {
            let v = match explicit.get(k) { Some(v) => v.clone(), None => std::env::var_os(k).map(|v| os(&v)) };
            match v { Some(v) => hexs(&v), None => "~".into() }
        }).collect();
        let v = pkg.version();
        let pkgfields: Vec<String> = vec![pkgname.to_string(), version.clone(), v.major.to_string(), v.minor.to_string(), v.patch.to_string(), v.pre.to_string(),
            authors.join(":"), descr.unwrap_or("").to_string(), homepage.unwrap_or("").to_string(), license.unwrap_or("").to_string(),
            license_file.unwrap_or("").to_string(), repository.unwrap_or("").to_string(), rust_version.map(|r| { let p: Vec<&str> = r.split('.').collect(); if p.len() == 2 { format!("{}.0", r) } else { r.to_string() } }).unwrap_or_default()];
        let inh_s = if inherited.is_empty() { ".".to_string() } else { inherited.iter().map(|(k, v)| format!("{}:{}", hexs(k), hexs(v))).collect::<Vec<_>>().join(";") };
        let cargo_s = if cargo.is_empty() { ".".to_string() } else { cargo.iter().map(|(k, v, f)| format!("{}:{}:{}", hexs(k), hexs(v), if f.unwrap_or(false) { 1 } else { 0 })).collect::<Vec<_>>().join(";") };
        let cwd_impl = cmd.cwd.as_ref().map(|d| d.to_string_lossy().into_owned()).unwrap_or_default();
        writeln!(out, "cmd {} {} {} {} {} {} {} {} {} {} {} {}\t{} {} {} {}",
            if ds { 1 } else { 0 }, hexs(&exe), hexs(program), hexs(&tname), if ignored { 1 } else { 0 }, hexwords(&extra), hexs(profile), hexs(cwd),
            inh_s, cargo_s, hexwords(&pkgfields), hexwords(&probes),
            hexwords(&spawned), fin, hexs(&cwd_impl), vals.join(",")).unwrap();
        *dist.entry(format!("ds:{}", ds as u8)).or_insert(0) += 1;
        *dist.entry(format!("ignored:{}", ignored as u8)).or_insert(0) += 1;
        *dist.entry(format!("extra:{}", nextra)).or_insert(0) += 1;
        *dist.entry("inherited-keys".into()).or_insert(0) += inherited.len() as u64;
        *dist.entry("cargo-env-keys".into()).or_insert(0) += cargo.len() as u64;
        *dist.entry("cargo-force".into()).or_insert(0) += cargo.iter().filter(|c| c.2 == Some(true)).count() as u64;
        let _ = case;
    }
    for k in pool_keys.iter() { std::env::remove_var(k); }
    out.flush().unwrap();
    let d: Vec<String> = dist.iter().map(|(k, v)| format!("{}={}", k, v)).collect();
    eprintln!("DIST {}", d.join(" "));
}
