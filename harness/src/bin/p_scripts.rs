//! In-process correspondence stream for C18: which setup scripts a profile enables and to which tests each applies —
//! the real `EvaluatableProfile::setup_scripts` (`SetupScripts::new_with_queries`) and `SetupScript::is_enabled` (guarded hook
//! `verif_enabled`) over generated `[script.*]` definitions, `[[profile.default.scripts]]` rules with filters and
//! host/target platform specifications, and test lists with **host-platform and target-platform binaries**.
//! The truth of each (rule, test) pair is computed here from the pools' known truths; the Lean model (`scripts` request)
//! turns the truth table into the enabled list and the per-test applicability.
use camino::Utf8PathBuf;
use nextest_filtering::ParseContext;
use nextest_metadata::{BuildPlatform, FilterMatch, RustBinaryId, RustTestBinaryKind, RustTestCaseSummary};
use nextest_runner::config::{ConfigExperimental, NextestConfig};
use nextest_runner::list::{RustBuildMeta, RustTestSuite, RustTestSuiteStatus, TestList};
use nextest_runner::platform::BuildPlatforms;
use nextest_runner::reuse_build::PathMapper;
use std::collections::{BTreeMap, BTreeSet};
use std::io::Write;
use verif_harness::{graphgen::GraphSpec, hexs::*, rng::Rng};

fn main() {
    let args: Vec<String> = std::env::args().collect();
    let seed: u64 = args.get(1).map(|s| s.parse().unwrap()).unwrap_or(1);
    let n: usize = args.get(2).map(|s| s.parse().unwrap()).unwrap_or(200);
    let dir = Utf8PathBuf::from(args.get(3).cloned().unwrap_or_else(|| "/verif/.build/scripts-tmp".into()));
    let _ = std::fs::remove_dir_all(&dir);
    std::fs::create_dir_all(dir.join(".config")).unwrap();
    let mut rng = Rng::new(seed ^ 0x5c18);
    let out = std::io::stdout();
    let mut out = std::io::BufWriter::new(out.lock());
    let mut dist: BTreeMap<String, u64> = BTreeMap::new();
    let gspec = GraphSpec::random(&mut rng, 2, 0);
    let graph = gspec.build();
    let pcx = ParseContext::new(&graph);
    let pkg = graph.workspace().iter().next().unwrap();
    // (filter text, truth on (binary name, test name))
    type F = fn(&str, &str) -> bool;
    let filters: Vec<(Option<&str>, F)> = vec![
        (None, |_, _| true), (Some("all()"), |_, _| true), (Some("test(a)"), |_, t| t.contains('a')), (Some("test(=m::b)"), |_, t| t == "m::b"),
        (Some("kind(test)"), |_, _| true), (Some("test(q) | test(z)"), |_, t| t.contains('q') || t.contains('z')), (Some("not test(/^m::/)"), |_, t| !t.starts_with("m::")),
        (Some("none()"), |_, _| false), (Some("kind(test) & test(z)"), |_, t| t.contains('z')),
    ];
    // (platform text, host spec true?, target spec true?) on a unix host that is also the target
    let platforms: Vec<(Option<&str>, bool, bool)> = vec![
        (None, true, true), (Some("'cfg(unix)'"), true, true), (Some("'cfg(windows)'"), true, false),
        (Some("{ host = \"cfg(unix)\", target = \"cfg(windows)\" }"), true, false), (Some("{ host = \"cfg(windows)\", target = \"cfg(unix)\" }"), false, true),
        (Some("{ host = \"cfg(unix)\" }"), true, true), (Some("{ target = \"cfg(windows)\" }"), true, false), (Some("{ host = \"cfg(windows)\" }"), false, true),
    ];
    let names = ["a", "m::b", "z", "m::az", "q"];
    let experimental: BTreeSet<ConfigExperimental> = [ConfigExperimental::SetupScripts].into_iter().collect();
    for case in 0..n {
        // binaries: hb runs on the HOST platform (a proc-macro crate's tests), tb on the target platform
        let mut suites = Vec::new();
        let mut tests: Vec<(String, String)> = Vec::new();
        for (bname, plat) in [("hb", BuildPlatform::Host), ("tb", BuildPlatform::Target)] {
            let mut cases: BTreeMap<String, RustTestCaseSummary> = BTreeMap::new();
            for nm in names.iter() { if rng.chance(1, 2) { cases.insert(nm.to_string(), RustTestCaseSummary { ignored: false, filter_match: FilterMatch::Matches }); } }
            suites.push(RustTestSuite {
                binary_id: RustBinaryId::new(&format!("w0::{bname}")), binary_path: "/fake/bin".into(), package: pkg, binary_name: bname.into(), kind: RustTestBinaryKind::TEST,
                cwd: "/fake".into(), build_platform: plat, non_test_binaries: BTreeSet::new(), status: RustTestSuiteStatus::Listed { test_cases: cases },
            });
        }
        let defs: Vec<&str> = { let mut d = vec!["s1", "s2", "s3"]; let k = rng.range(1, 3) as usize; for i in (1..d.len()).rev() { let j = rng.below(i as u64 + 1) as usize; d.swap(i, j); } d.truncate(k); d };
        let mut toml = String::from("experimental = [\"setup-scripts\"]\n");
        for d in &defs { toml.push_str(&format!("[script.{d}]\ncommand = \"true\"\n")); }
        let nr = rng.range(1, 3) as usize;
        let mut rules: Vec<(Vec<&str>, usize, usize)> = Vec::new();
        for _ in 0..nr {
            let mut fi = rng.below(filters.len() as u64) as usize; let pi = rng.below(platforms.len() as u64) as usize;
            if filters[fi].0.is_none() && platforms[pi].0.is_none() { fi = 1; }
            let mut setup: Vec<&str> = defs.iter().copied().filter(|_| rng.chance(2, 3)).collect();
            if setup.is_empty() { setup.push(defs[0]); }
            toml.push_str("[[profile.default.scripts]]\n");
            if let Some(f) = filters[fi].0 { toml.push_str(&format!("filter = '{f}'\n")); }
            if let Some(p) = platforms[pi].0 { toml.push_str(&format!("platform = {p}\n")); }
            toml.push_str(&format!("setup = [{}]\n", setup.iter().map(|s| format!("\"{s}\"")).collect::<Vec<_>>().join(", ")));
            rules.push((setup, fi, pi));
        }
        std::fs::write(dir.join(".config/nextest.toml"), &toml).unwrap();
        let cfg = match NextestConfig::from_sources(dir.clone(), &pcx, None, &[][..], &experimental) {
            Ok(c) => c, Err(e) => { if case < 3 { eprintln!("config error: {e:?}\n{toml}"); } *dist.entry("config-error".into()).or_insert(0) += 1; continue; } };
        let bp = BuildPlatforms::new_with_no_target().unwrap();
        let profile = cfg.profile("default").unwrap().apply_build_platforms(&bp);
        let meta = RustBuildMeta::new("/fake", bp.clone()).map_paths(&PathMapper::noop());
        let list = TestList::verif_from_suites(suites, "/fake".into(), meta);
        for t in list.iter_tests() { tests.push((t.suite_info.binary_name.clone(), t.name.to_string())); }
        let scripts = profile.setup_scripts(&list);
        let (ids, per_test) = scripts.verif_enabled(&profile, &list);
        // ---- request for the model: truth table from the pools
        let rules_s = rules.iter().map(|(setup, fi, pi)| {
            let bits: String = tests.iter().map(|(b, t)| if platforms[*pi].1 && platforms[*pi].2 && (filters[*fi].1)(b, t) { '1' } else { '0' }).collect();
            format!("{}:{}", setup.join("+"), if bits.is_empty() { "_".to_string() } else { bits })
        }).collect::<Vec<_>>().join(";");
        let sel = if tests.is_empty() { ".".to_string() } else { (0..tests.len()).map(|i| i.to_string()).collect::<Vec<_>>().join(",") };
        let ran = defs.iter().map(|d| format!("{d}={}", hexs(&format!("K_{d}=1")))).collect::<Vec<_>>().join(";");
        let keys = ["s1", "s2", "s3"].iter().map(|d| hexs(&format!("K_{d}"))).collect::<Vec<_>>().join(",");
        // ---- implementation's answer in the model's output shape
        let env_s = (0..tests.len()).map(|ti| {
            let vals: Vec<String> = ["s1", "s2", "s3"].iter().map(|d| {
                match ids.iter().position(|i| i == d) { Some(p) if per_test[ti].2[p] => hexs("1"), _ => "~".to_string() }
            }).collect();
            format!("t{ti}:{}", vals.join(","))
        }).collect::<Vec<_>>().join(";");
        let parse_s = defs.iter().map(|d| format!("{d}:ok")).collect::<Vec<_>>().join(",");
        writeln!(out, "scripts {} {} {} {} {} {}\tenabled={} parse={} env={}", defs.join(","), rules_s, sel, tests.len(), ran, keys,
            if ids.is_empty() { ".".to_string() } else { ids.join(",") }, parse_s, env_s).unwrap();
        *dist.entry(format!("enabled:{}", ids.len())).or_insert(0) += 1;
        *dist.entry("host-tests".into()).or_insert(0) += tests.iter().filter(|(b, _)| b == "hb").count() as u64;
        *dist.entry("target-tests".into()).or_insert(0) += tests.iter().filter(|(b, _)| b == "tb").count() as u64;
    }
    out.flush().unwrap();
    let d: Vec<String> = dist.iter().map(|(k, v)| format!("{}={}", k, v)).collect();
    eprintln!("DIST {}", d.join(" "));
}
