//! In-process correspondence stream for the scheduler (C02 C08 C14): the real
//! `future_queue::StreamExt::future_queue_grouped` driven by hand with futures that complete when told.
use future_queue::{FutureQueueContext, StreamExt as _};
use futures::channel::oneshot;
use futures::stream::Stream;
use std::collections::BTreeMap;
use std::io::Write;
use std::pin::Pin;
use std::sync::{Arc, Mutex};
use std::task::{Context, Poll};
use verif_harness::rng::Rng;

fn main() {
    let args: Vec<String> = std::env::args().collect();
    let seed: u64 = args.get(1).map(|s| s.parse().unwrap()).unwrap_or(1);
    let n: usize = args.get(2).map(|s| s.parse().unwrap()).unwrap_or(300);
    let mut rng = Rng::new(seed ^ 0x5C4ED);
    let out = std::io::stdout();
    let mut out = std::io::BufWriter::new(out.lock());
    let mut dist: BTreeMap<String, u64> = BTreeMap::new();
    std::panic::set_hook(Box::new(|_| {}));
    for case in 0..n {
        let t = rng.range(1, 6) as usize;
        let ngroups = rng.below(3) as usize;
        let gmax: Vec<usize> = (0..ngroups).map(|_| rng.range(1, 4) as usize).collect();
        let mut nitems = rng.range(0, 10) as usize;
        // uniform weights per group in 2 of 3 cases (the shape under which every item is eventually started)
        let uniform = rng.chance(2, 3) || case % 7 == 0;
        let gw: Vec<usize> = (0..ngroups).map(|_| rng.range(1, 4) as usize).collect();
        let mut items: Vec<(usize, usize, Option<usize>)> = Vec::new();
        // case 0 is the fixed witness of the known finding F7 (corpus): T=4, one group (max 2) with weights 1 and 2
        let fixed = case == 0;
        let (t, gmax) = if fixed { (4usize, vec![2usize]) } else { (t, gmax) };
        let ngroups = gmax.len();
        if fixed { items = vec![(0, 1, Some(0)), (1, 2, Some(0)), (2, 1, None), (3, 1, None), (4, 1, None)]; nitems = 5; }
        for id in 0..(if fixed { 0 } else { nitems }) {
            let g = if ngroups > 0 && rng.chance(1, 2) { Some(rng.below(ngroups as u64) as usize) } else { None };
            let w = match g { Some(g) if uniform => gw[g], _ => *rng.pick(&[1usize, 1, 1, 2, 3, 8]) };
            items.push((id, w, g));
        }
        *dist.entry(format!("weights:{}", if uniform { "uniform-per-group" } else { "mixed" })).or_insert(0) += 1;
        let log: Arc<Mutex<Vec<(usize, u64, Option<u64>)>>> = Arc::new(Mutex::new(Vec::new()));
        let mut senders: BTreeMap<usize, oneshot::Sender<()>> = BTreeMap::new();
        let mut stream_items = Vec::new();
        for &(id, w, g) in &items {
            let (tx, rx) = oneshot::channel::<()>();
            senders.insert(id, tx);
            let log = log.clone();
            let f = move |cx: FutureQueueContext| {
                log.lock().unwrap().push((id, cx.global_slot(), cx.group_slot()));
                async move { let _ = rx.await; id }
            };
            stream_items.push((w, g, f));
        }
        let groups: Vec<(usize, usize)> = gmax.iter().cloned().enumerate().collect();
        let mut stream = Box::pin(futures::stream::iter(stream_items).future_queue_grouped(t, groups));
        let waker = futures::task::noop_waker();
        let mut cx = Context::from_waker(&waker);
        let mut ops: Vec<String> = Vec::new();
        let mut outs: Vec<String> = Vec::new();
        let mut running: Vec<usize> = Vec::new();
        let mut seen = 0usize;
        let mut ended = false;
        macro_rules! do_poll { () => {{
            let r = std::panic::catch_unwind(std::panic::AssertUnwindSafe(|| Stream::poll_next(stream.as_mut(), &mut cx)));
            match r {
                Ok(Poll::Ready(None)) => { ended = true; Ok::<(), ()>(()) }
                Ok(_) => Ok(()),
                Err(_) => Err(()),
            }.map(|_| {
                let l = log.lock().unwrap();
                let started: Vec<String> = l[seen..].iter().map(|(id, gs, grs)| { running.push(*id); format!("{}@{}/{}", id, gs, grs.map_or("-".to_string(), |x| x.to_string())) }).collect();
                seen = l.len();
                format!("{}|cur={}", started.join(","), stream.current_global_weight())
            })
        }}}
        let mut panicked = false;
        ops.push("P".into());
        match do_poll!() { Ok(s) => outs.push(s), Err(_) => { panicked = true; } }
        let mut steps = 0;
        while !panicked && !running.is_empty() && steps < 40 {
            steps += 1;
            // complete a random running future (any completion order); the fixed case completes in creation order
            let k = if fixed { 0 } else { rng.below(running.len() as u64) as usize };
            let id = running.remove(k);
            let _ = senders.remove(&id).unwrap().send(());
            ops.push(format!("C{}", id));
            match do_poll!() { Ok(s) => outs.push(s), Err(_) => { panicked = true; } }
        }
        let started_total = seen;
        let never = nitems - started_total;
        if never > 0 { *dist.entry("result:items-never-started".into()).or_insert(0) += 1; }
        if panicked { *dist.entry("result:panic".into()).or_insert(0) += 1; }
        let pending = 0; // the stream is a finite iterator: everything is pulled or parked once global space allows
        let _ = pending;
        let tail = format!("END started={} never_started={} panicked={}", started_total, never, panicked as u8);
        let items_s = if items.is_empty() { ".".to_string() } else { items.iter().map(|(id, w, g)| format!("{}:{}:{}", id, w, g.map_or("-".to_string(), |x| x.to_string()))).collect::<Vec<_>>().join(",") };
        let gm_s = if gmax.is_empty() { ".".to_string() } else { gmax.iter().map(|x| x.to_string()).collect::<Vec<_>>().join(",") };
        writeln!(out, "sched {} {} {} {}\t{} ## {}", t, gm_s, items_s, ops.join(","), outs.join(" ## "), tail).unwrap();
        let _ = ended;
        std::mem::forget(stream);
    }
    out.flush().unwrap();
    let d: Vec<String> = dist.iter().map(|(k, v)| format!("{}={}", k, v)).collect();
    eprintln!("DIST {}", d.join(" "));
}
