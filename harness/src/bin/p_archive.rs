//! In-process correspondence streams for C19.
//!  * `aval`  — one-entry archives with hostile entry paths (raw header bytes), extracted by the real
//!              `ReuseBuildInfo::extract_archive`; the verdict and what appeared on disk, against the
//!              Lean model of `ArchiveReader::entries`' validation.
//!  * `host`  — multi-entry hostile archives (symlink-then-file, hard links to the outside, directory
//!              entries with `..`, …): monitor lines, `ok` iff nothing outside `<dest>/target` changed.
//!  * `aarch` — generated target-directory trees and `archive.include` configurations, archived by the
//!              real `archive_to_file` and extracted again; the extracted member set against the model's
//!              `collect` + de-duplication, contents compared byte for byte.
use camino::{Utf8Path, Utf8PathBuf};
use nextest_filtering::ParseContext;
use nextest_metadata::BinaryListSummary;
use nextest_runner::config::NextestConfig;
use nextest_runner::errors::{ArchiveExtractError, ArchiveReadError};
use nextest_runner::list::BinaryList;
use nextest_runner::redact::Redactor;
use nextest_runner::reuse_build::{archive_to_file, ArchiveFormat, ExtractDestination, PathMapper, ReuseBuildInfo};
use std::collections::{BTreeMap, BTreeSet};
use std::io::Write;
use verif_harness::{graphgen::GraphSpec, hexs::*, rng::Rng};

fn raw_header(name: &[u8], size: u64, kind: tar::EntryType, link: Option<&[u8]>, bad_cksum: bool) -> tar::Header {
    let mut h = tar::Header::new_gnu();
    {
        let old = h.as_old_mut();
        for b in old.name.iter_mut() { *b = 0; }
        old.name[..name.len()].copy_from_slice(name);
        if let Some(l) = link { for b in old.linkname.iter_mut() { *b = 0; } old.linkname[..l.len()].copy_from_slice(l); }
    }
    h.set_size(size);
    h.set_mode(0o644);
    h.set_mtime(1_700_000_000);
    h.set_entry_type(kind);
    h.set_cksum();
    if bad_cksum { let old = h.as_old_mut(); old.cksum[1] = if old.cksum[1] == b'7' { b'1' } else { b'7' }; }
    h
}

enum Ent { File(Vec<u8>, Vec<u8>, bool), Sym(Vec<u8>, Vec<u8>), Hard(Vec<u8>, Vec<u8>), Dir(Vec<u8>) }

fn write_archive(path: &Utf8Path, ents: &[Ent]) {
    let f = std::fs::File::create(path).unwrap();
    let enc = zstd::Encoder::new(f, 1).unwrap();
    let mut b = tar::Builder::new(enc);
    for e in ents {
        match e {
            Ent::File(n, data, bad) => { let h = raw_header(n, data.len() as u64, tar::EntryType::Regular, None, *bad); b.append(&h, &data[..]).unwrap(); }
            Ent::Sym(n, l) => { let h = raw_header(n, 0, tar::EntryType::Symlink, Some(l), false); b.append(&h, &[][..]).unwrap(); }
            Ent::Hard(n, l) => { let h = raw_header(n, 0, tar::EntryType::Link, Some(l), false); b.append(&h, &[][..]).unwrap(); }
            Ent::Dir(n) => { let h = raw_header(n, 0, tar::EntryType::Directory, None, false); b.append(&h, &[][..]).unwrap(); }
        }
    }
    let enc = b.into_inner().unwrap();
    enc.finish().unwrap();
}

fn extract(archive: &Utf8Path, dest: &Utf8Path) -> Result<ReuseBuildInfo, ArchiveExtractError> {
    ReuseBuildInfo::extract_archive(archive, ArchiveFormat::TarZst, ExtractDestination::Destination { dir: dest.to_owned(), overwrite: false }, |_| Ok(()), None)
}

fn verdict(r: &Result<ReuseBuildInfo, ArchiveExtractError>) -> String {
    match r {
        Ok(_) => "accepted".into(),
        Err(ArchiveExtractError::Read(ArchiveReadError::NonUtf8Path(_))) => "nonutf8".into(),
        Err(ArchiveExtractError::Read(ArchiveReadError::NoTargetPrefix(_))) => "prefix".into(),
        Err(ArchiveExtractError::Read(ArchiveReadError::InvalidComponent { component, .. })) => format!("component:{}", hexs(component)),
        Err(ArchiveExtractError::Read(ArchiveReadError::InvalidChecksum { .. })) | Err(ArchiveExtractError::Read(ArchiveReadError::ChecksumRead { .. })) => "cksum".into(),
        Err(ArchiveExtractError::Read(ArchiveReadError::Io(e))) => if e.to_string().contains("checksum") { "cksum".into() } else { format!("io:{}", hexs(&e.to_string())) },
        // every entry passed validation and was unpacked; the archive just is not a nextest archive
        Err(ArchiveExtractError::Read(ArchiveReadError::MetadataFileNotFound(_))) => "accepted".into(),
        Err(ArchiveExtractError::WriteFile { error, .. }) => format!("write-error:{}", hexs(&error.to_string())),
        Err(e) => format!("other:{}", hexs(&format!("{e:?}"))),
    }
}

/// every path below `root` (not following symlinks), relative, with a kind letter
fn walk(root: &std::path::Path, rel: &str, out: &mut Vec<(String, char)>) {
    let Ok(rd) = std::fs::read_dir(root) else { return };
    let mut names: Vec<_> = rd.filter_map(|e| e.ok()).collect();
    names.sort_by_key(|e| e.file_name());
    for e in names {
        let name = e.file_name().to_string_lossy().into_owned();
        let r = if rel.is_empty() { name.clone() } else { format!("{rel}/{name}") };
        let md = std::fs::symlink_metadata(e.path()).unwrap();
        if md.file_type().is_symlink() { out.push((r, 'l')); }
        else if md.is_dir() { out.push((r.clone(), 'd')); walk(&e.path(), &r, out); }
        else { out.push((r, 'f')); }
    }
}

fn fresh(dir: &Utf8Path) {
    let _ = std::fs::remove_dir_all(dir);
    std::fs::create_dir_all(dir).unwrap();
}

const SEGS: &[&str] = &["target", "target", "target", "targetx", "target-evil", "targets", "Target", "..", "..", ".", "", "a", "b c", "é", "x.y", ".hidden", "...", "debug", "deps", "nextest"];

fn gen_path(rng: &mut Rng) -> Vec<u8> {
    let pool: &[&str] = &["target/debug/x", "target/../escape", "target/../../outside/pwn", "/target/x", "./target/x", "target/./x", "target//x", "targetx/y", "target-evil/pwned.txt",
        "target", "target/", "../outside/pwn", "target/a/../../../outside/pwn", "target/a/..", "..", ".", "x", "target/.../x", "target/..hidden", "target/a/./b/", "//target/x", "target/x/.", "targets/x", "target.old/x"];
    if rng.chance(1, 3) { return rng.pick(pool).as_bytes().to_vec(); }
    let n = rng.range(1, 5);
    let mut s = String::new();
    match rng.below(8) { 0 => s.push('/'), 1 => s.push_str("./"), _ => {} }
    for i in 0..n {
        if i > 0 { s.push('/'); }
        if i == 0 && rng.chance(2, 3) { s.push_str("target"); } else { s.push_str(*rng.pick(SEGS)); }
    }
    if rng.chance(1, 8) { s.push('/'); }
    let mut b = s.into_bytes();
    if rng.chance(1, 12) { let i = rng.below(b.len() as u64 + 1) as usize; b.insert(i, *rng.pick(&[0xffu8, 0xc0, 0x80])); }
    b.truncate(99);
    if b.is_empty() { b = b"x".to_vec(); }
    b
}

fn outside_state(sbx: &Utf8Path) -> String {
    // everything in the sandbox that is not under dest/target, plus the canary's content
    let mut all = Vec::new();
    walk(sbx.as_std_path(), "", &mut all);
    let bad: Vec<String> = all.iter().filter(|(p, _)| !(p == "dest" || p == "dest/target" || p.starts_with("dest/target/") || p == "outside" || p == "outside/canary" || p == "a.tar.zst")).map(|(p, k)| format!("{k}:{p}")).collect();
    let canary = std::fs::read(sbx.join("outside/canary")).unwrap_or_default();
    let mut msgs = bad;
    if canary != b"canary" { msgs.push("canary-modified".into()); }
    // symlinks inside dest/target pointing out are inert; a *file reachable through them* outside is caught above
    if msgs.is_empty() { "ok".into() } else { msgs.join(",") }
}

fn mode_aval(seed: u64, n: usize, dir: &Utf8Path) {
    let mut rng = Rng::new(seed ^ 0xA7C1);
    let out = std::io::stdout(); let mut out = std::io::BufWriter::new(out.lock());
    let mut dist: BTreeMap<String, u64> = BTreeMap::new();
    for case in 0..n {
        let sbx = dir.join("sbx");
        fresh(&sbx);
        std::fs::create_dir_all(sbx.join("dest")).unwrap();
        std::fs::create_dir_all(sbx.join("outside")).unwrap();
        std::fs::write(sbx.join("outside/canary"), b"canary").unwrap();
        let path = gen_path(&mut rng);
        let bad = rng.chance(1, 15);
        let arch = sbx.join("a.tar.zst");
        write_archive(&arch, &[Ent::File(path.clone(), b"payload".to_vec(), bad)]);
        let r = extract(&arch, &sbx.join("dest"));
        let v = verdict(&r);
        *dist.entry(format!("verdict:{}", v.split(':').next().unwrap())).or_insert(0) += 1;
        let mut created = Vec::new();
        walk(sbx.join("dest").as_std_path(), "", &mut created);
        let leaves: Vec<String> = created.iter().filter(|(p, k)| *k != 'd' || !created.iter().any(|(q, _)| q.starts_with(&format!("{p}/")))).map(|(p, _)| hexs(p)).collect();
        writeln!(out, "aval {} {}\t{} {}", hex(&path), !bad as u8, v, if leaves.is_empty() { ".".into() } else { leaves.join(",") }).unwrap();
        writeln!(out, "mon outside aval-case-{} path={}\t{}", case, hex(&path), outside_state(&sbx)).unwrap();
    }
    out.flush().unwrap();
    eprintln!("DIST {}", dist.iter().map(|(k, v)| format!("{k}={v}")).collect::<Vec<_>>().join(" "));
}

fn mode_host(seed: u64, n: usize, dir: &Utf8Path) {
    let mut rng = Rng::new(seed ^ 0x4057);
    let out = std::io::stdout(); let mut out = std::io::BufWriter::new(out.lock());
    let mut dist: BTreeMap<String, u64> = BTreeMap::new();
    for case in 0..n {
        let sbx = dir.join("sbx");
        fresh(&sbx);
        std::fs::create_dir_all(sbx.join("dest")).unwrap();
        std::fs::create_dir_all(sbx.join("outside")).unwrap();
        std::fs::write(sbx.join("outside/canary"), b"canary").unwrap();
        let abs_out = sbx.join("outside").to_string();
        let mut ents: Vec<Ent> = Vec::new();
        let shape = if case < 8 { case as u64 } else { rng.below(8) };
        match shape {
            0 => { ents.push(Ent::Sym(b"target/link".to_vec(), b"../../outside".to_vec())); ents.push(Ent::File(b"target/link/pwn".to_vec(), b"x".to_vec(), false)); }
            1 => { ents.push(Ent::Sym(b"target/abs".to_vec(), abs_out.as_bytes().to_vec())); ents.push(Ent::File(b"target/abs/pwn".to_vec(), b"x".to_vec(), false)); }
            2 => { ents.push(Ent::Hard(b"target/h".to_vec(), b"../outside/canary".to_vec())); ents.push(Ent::File(b"target/h".to_vec(), b"overwritten".to_vec(), false)); }
            3 => { ents.push(Ent::Hard(b"target/h".to_vec(), format!("{abs_out}/canary").into_bytes())); ents.push(Ent::File(b"target/h".to_vec(), b"overwritten".to_vec(), false)); }
            4 => { ents.push(Ent::Dir(b"target/../outside/d".to_vec())); }
            5 => { ents.push(Ent::Sym(b"target".to_vec(), b"../outside".to_vec())); ents.push(Ent::File(b"target/pwn".to_vec(), b"x".to_vec(), false)); }
            6 => { ents.push(Ent::Sym(b"target/a".to_vec(), b"..".to_vec())); ents.push(Ent::Sym(b"target/a/b".to_vec(), b"../outside".to_vec())); ents.push(Ent::File(b"target/a/b/pwn".to_vec(), b"x".to_vec(), false)); }
            _ => {
                for _ in 0..rng.range(1, 5) {
                    let p = gen_path(&mut rng);
                    match rng.below(4) {
                        0 => ents.push(Ent::Sym(p, rng.pick(&["..", "../..", "../../outside", "/", abs_out.as_str(), "x"]).as_bytes().to_vec())),
                        1 => ents.push(Ent::Hard(p, rng.pick(&["../outside/canary", "target/x", "../../outside/canary"]).as_bytes().to_vec())),
                        2 => ents.push(Ent::Dir(p)),
                        _ => ents.push(Ent::File(p, b"data".to_vec(), false)),
                    }
                }
            }
        }
        *dist.entry(format!("shape:{shape}")).or_insert(0) += 1;
        let arch = sbx.join("a.tar.zst");
        write_archive(&arch, &ents);
        let r = extract(&arch, &sbx.join("dest"));
        let v = verdict(&r);
        *dist.entry(format!("verdict:{}", v.split(':').next().unwrap())).or_insert(0) += 1;
        let desc: Vec<String> = ents.iter().map(|e| match e {
            Ent::File(n, _, _) => format!("file:{}", hex(n)), Ent::Sym(n, l) => format!("sym:{}>{}", hex(n), hex(l)), Ent::Hard(n, l) => format!("hard:{}>{}", hex(n), hex(l)), Ent::Dir(n) => format!("dir:{}", hex(n)) }).collect();
        writeln!(out, "mon outside host-case-{} shape={} {} verdict={}\t{}", case, shape, desc.join(","), v, outside_state(&sbx)).unwrap();
    }
    out.flush().unwrap();
    eprintln!("DIST {}", dist.iter().map(|(k, v)| format!("{k}={v}")).collect::<Vec<_>>().join(" "));
}

// ---------------------------------------------------------------------------------------------- aarch

#[derive(Clone)]
enum Node { File(Vec<u8>), Sym(String), Other, Dir(Vec<(String, Node)>) }

fn gen_node(rng: &mut Rng, depth: u32, tag: &mut u32) -> Node {
    if depth == 0 || rng.chance(1, 3) {
        *tag += 1;
        return match rng.below(10) { 0 => Node::Other, _ => Node::File(format!("content-{}-{}", tag, "z".repeat(rng.below(2000) as usize)).into_bytes()) };
    }
    let n = rng.below(4);
    let mut cs: Vec<(String, Node)> = Vec::new();
    for i in 0..n { cs.push((format!("{}{}", rng.pick(&["f", "sub", "x y", "é", "lib"]), i), gen_node(rng, depth - 1, tag))); }
    // a symlink to a sibling regular file
    if let Some((name, _)) = cs.iter().find(|(_, c)| matches!(c, Node::File(_))).cloned() { if rng.chance(1, 3) { cs.push((format!("ln{}", cs.len()), Node::Sym(name))); } }
    Node::Dir(cs)
}

fn materialize(p: &Utf8Path, n: &Node) {
    match n {
        Node::File(d) => std::fs::write(p, d).unwrap(),
        Node::Sym(t) => std::os::unix::fs::symlink(t, p).unwrap(),
        Node::Other => { let c = std::ffi::CString::new(p.as_str()).unwrap(); unsafe { libc::mkfifo(c.as_ptr(), 0o644) }; }
        Node::Dir(cs) => { std::fs::create_dir_all(p).unwrap(); for (name, c) in cs { materialize(&p.join(name), c); } }
    }
}

fn tokens(n: &Node, name: &str, out: &mut Vec<String>) {
    match n {
        Node::File(_) => out.push(format!("F{}", hexs(name))),
        Node::Sym(_) => out.push(format!("L{}", hexs(name))),
        Node::Other => out.push(format!("O{}", hexs(name))),
        Node::Dir(cs) => { out.push(format!("D{}", hexs(name))); for (nm, c) in cs { tokens(c, nm, out); } out.push("E".into()); }
    }
}

fn lookup<'a>(n: &'a Node, path: &[&str]) -> Option<&'a Node> {
    if path.is_empty() { return Some(n); }
    match n { Node::Dir(cs) => cs.iter().find(|(nm, _)| nm == path[0]).and_then(|(_, c)| lookup(c, &path[1..])), _ => None }
}

/// one source of the archive, in archive order: (`target/...` prefix, depth or -1 for infinite, node)
fn src(prefix: &str, depth: i64, n: &Node) -> String {
    let mut t = Vec::new();
    tokens(n, "", &mut t);
    format!("{}@{}@{}", hexs(prefix), if depth < 0 { "inf".to_string() } else { depth.to_string() }, t.join(","))
}

fn mode_aarch(seed: u64, n: usize, dir: &Utf8Path) {
    let mut rng = Rng::new(seed ^ 0xAAC4);
    let out = std::io::stdout(); let mut out = std::io::BufWriter::new(out.lock());
    let mut dist: BTreeMap<String, u64> = BTreeMap::new();
    let gspec = GraphSpec::random(&mut rng, 2, 0);
    let graph = gspec.build();
    let meta_json = gspec.to_json();
    let pcx = ParseContext::new(&graph);
    let pkgid = gspec.id(0);
    let experimental = BTreeSet::new();
    for case in 0..n {
        let root = dir.join("arch");
        fresh(&root);
        let tgt = root.join("tgt");
        let mut tag = 0u32;
        // the whole target directory as one Node
        let outdir = if rng.chance(3, 4) { Some(gen_node(&mut rng, 3, &mut tag)) } else { None };
        let outdir = outdir.map(|n| match n { Node::Dir(mut cs) => { if rng.chance(2, 3) { cs.push(("lib".into(), gen_node(&mut rng, 2, &mut tag))); } Node::Dir(cs) } _ => Node::Dir(vec![("only".into(), Node::File(b"x".to_vec()))]) });
        let n_inc = rng.below(3) as usize;
        let mut top: Vec<(String, Node)> = Vec::new();
        let mut debug: Vec<(String, Node)> = vec![("deps".into(), Node::Dir(vec![("tb-0123456789abcdef".into(), Node::File(b"\x7fELF-test-binary".to_vec()))])), ("nb".into(), Node::File(b"\x7fELF-bin".to_vec()))];
        if let Some(od) = &outdir { debug.push(("build".into(), Node::Dir(vec![("pk-00ff".into(), Node::Dir(vec![("out".into(), od.clone()), ("output".into(), Node::File(b"cargo:rustc-link-search=x\n".to_vec()))]))]))); }
        top.push(("debug".into(), Node::Dir(debug)));
        for i in 0..n_inc { top.push((format!("inc{i}"), if rng.chance(1, 6) { Node::File(b"top-level include file".to_vec()) } else { let t = gen_node(&mut rng, 4, &mut tag); match t { Node::Dir(_) => t, o => Node::Dir(vec![("single".into(), o)]) } })); }
        // a target directory that was itself the destination of an earlier extraction: stale copies of the archive's own
        // metadata files lie where the new archive puts its fresh ones
        let stale = rng.chance(1, 3);
        if stale { top.push(("nextest".into(), Node::Dir(vec![("binaries-metadata.json".into(), Node::File(b"STALE{".to_vec())), ("cargo-metadata.json".into(), Node::File(b"STALE{".to_vec())), ("kept.txt".into(), Node::File(b"kept".to_vec()))]))); }
        let tree = Node::Dir(top);
        materialize(&tgt, &tree);
        // includes
        let mut cfg = String::from("[profile.default]\n");
        let mut srcs: Vec<String> = Vec::new();
        srcs.push(src("target/nextest/binaries-metadata.json", 0, &Node::File(vec![])));
        srcs.push(src("target/nextest/cargo-metadata.json", 0, &Node::File(vec![])));
        srcs.push(src("target/debug/deps/tb-0123456789abcdef", 0, &Node::File(vec![])));
        srcs.push(src("target/debug/nb", 0, &Node::File(vec![])));
        let mut linked: Vec<String> = Vec::new();
        if let Some(od) = &outdir {
            srcs.push(src("target/debug/build/pk-00ff/out", 1, od));
            srcs.push(src("target/debug/build/pk-00ff/output", 0, &Node::File(vec![])));
            if let Some(l) = lookup(od, &["lib"]) { if rng.chance(3, 4) { linked.push("debug/build/pk-00ff/out/lib".into()); srcs.push(src("target/debug/build/pk-00ff/out/lib", 1, l)); } }
            if rng.chance(1, 4) { linked.push("debug/build/pk-00ff/out/zz-nonexistent".into()); }
        }
        let mut expect_err = false;
        let mut expect_kind = "";
        let n_rules = rng.below(4);
        let mut inc_lines: Vec<(String, String)> = Vec::new();
        for _ in 0..n_rules {
            // a path into the tree (possibly a sub-path, possibly missing), with `./` decorations
            let mut comps: Vec<String> = Vec::new();
            let mut cur: &Node = &tree;
            let want = rng.range(1, 3);
            for _ in 0..want {
                match cur { Node::Dir(cs) if !cs.is_empty() => { let (nm, c) = rng.pick(cs); comps.push(nm.clone()); cur = c; } _ => break }
            }
            let missing = rng.chance(1, 6);
            if missing { comps.push("no-such-entry".into()); }
            let shown = { let mut s = comps.join("/"); if rng.chance(1, 4) { s = format!("./{s}"); } if rng.chance(1, 6) { s = s.replacen('/', "/./", 1); } s };
            let depth: i64 = *rng.pick(&[-2, -2, -1, 0, 1, 2, 3]); // -2: default (16)
            let on_missing = *rng.pick(&["", "warn", "ignore", "error"]);
            cfg.push_str(&format!("[[profile.default.archive.include]]\npath = \"{}\"\nrelative-to = \"target\"\n", shown.replace('\\', "\\\\")));
            if depth == -1 { cfg.push_str("depth = \"infinite\"\n"); } else if depth >= 0 { cfg.push_str(&format!("depth = {depth}\n")); }
            if !on_missing.is_empty() { cfg.push_str(&format!("on-missing = \"{on_missing}\"\n")); }
            let eff_depth = if depth == -2 { 16 } else { depth };
            // a missing entry *below a regular file* is ENOTDIR, not NotFound: a hard error whatever on-missing says
            if missing { if !matches!(cur, Node::Dir(_)) { if expect_kind.is_empty() { expect_kind = "InputFileRead"; } expect_err = true; } else if on_missing == "error" { if expect_kind.is_empty() { expect_kind = "MissingExtraPath"; } expect_err = true; } }
            else {
                let is_dir = matches!(cur, Node::Dir(_));
                let is_other = matches!(cur, Node::Other);
                if !(is_dir && eff_depth == 0) && !is_other { inc_lines.push((format!("target/{}", comps.join("/")), src(&format!("target/{}", comps.join("/")), eff_depth, cur))); }
            }
        }
        if stale && rng.chance(3, 4) {
            // an include that covers the stale metadata files
            cfg.push_str("[[profile.default.archive.include]]\npath = \"nextest\"\nrelative-to = \"target\"\n");
            if let Some(nd) = lookup(&tree, &["nextest"]) { inc_lines.push(("target/nextest".into(), src("target/nextest", 16, nd))); }
            *dist.entry("stale-metadata-included".into()).or_insert(0) += 1;
        }
        for (_, s) in &inc_lines { srcs.push(s.clone()); }
        *dist.entry(format!("includes:{}", n_rules)).or_insert(0) += 1;
        std::fs::create_dir_all(root.join("ws/.config")).unwrap();
        std::fs::write(root.join("ws/.config/nextest.toml"), &cfg).unwrap();
        let nc = match NextestConfig::from_sources(root.join("ws"), &pcx, None, &[][..], &experimental) {
            Ok(c) => c, Err(e) => { eprintln!("config error case {case}: {e:?}\n{cfg}"); *dist.entry("config-error".into()).or_insert(0) += 1; continue; } };
        let summary = serde_json::json!({
            "rust-build-meta": { "target-directory": tgt.as_str(), "base-output-directories": ["debug"],
                "non-test-binaries": { pkgid.clone(): [ { "name": "nb", "kind": "bin-exe", "path": "debug/nb" } ] },
                "build-script-out-dirs": if outdir.is_some() { serde_json::json!({ pkgid.clone(): "debug/build/pk-00ff/out" }) } else { serde_json::json!({}) },
                "linked-paths": linked,
                "platforms": { "host": { "platform": { "triple": "x86_64-unknown-linux-gnu", "target-features": "unknown" }, "libdir": { "status": "unavailable", "reason": "rustc-failed" } }, "targets": [] },
                "target-platforms": [ { "triple": "x86_64-unknown-linux-gnu", "target-features": "unknown" } ], "target-platform": null },
            "rust-binaries": { "w::tb": { "binary-id": "w::tb", "binary-name": "tb", "package-id": pkgid.clone(), "kind": "test", "binary-path": tgt.join("debug/deps/tb-0123456789abcdef").as_str(), "build-platform": "target" } }
        });
        let summary: BinaryListSummary = serde_json::from_value(summary).unwrap();
        let bl = BinaryList::from_summary(summary).unwrap();
        let prof = nc.profile("default").unwrap().apply_build_platforms(&bl.rust_build_meta.build_platforms);
        let arch = root.join("out.tar.zst");
        let pre_existing = rng.chance(1, 2);
        if pre_existing { std::fs::write(&arch, b"previous archive").unwrap(); }
        let mapper = PathMapper::noop();
        let r = archive_to_file(prof, &bl, &meta_json, &graph, &mapper, ArchiveFormat::TarZst, 1, &arch, |_| Ok(()), Redactor::noop());
        let req = format!("aarch {}", srcs.join(";"));
        match r {
            Err(e) => {
                eprintln!("ARCHERR case {case}: {e:?}"); let kind = format!("{e:?}"); let kind = kind.split(|c: char| !c.is_alphanumeric()).next().unwrap_or("").to_string();
                *dist.entry(format!("archive-error:{kind}")).or_insert(0) += 1;
                // all-or-nothing: the destination is absent / unchanged and no temporary file is left
                let state = if pre_existing { if std::fs::read(&arch).ok().as_deref() == Some(b"previous archive") { "unchanged" } else { "CHANGED" } } else if arch.exists() { "CREATED" } else { "absent" };
                let mut all = Vec::new(); walk(root.as_std_path(), "", &mut all);
                let stray: Vec<&String> = all.iter().filter(|(p, _)| !p.contains('/') && p != "tgt" && p != "ws" && p != "out.tar.zst").map(|(p, _)| p).collect();
                let ok = (state == "unchanged" || state == "absent") && stray.is_empty() && expect_err && kind == expect_kind;
                writeln!(out, "mon atomic aarch-case-{} error={} expected_error={} dest={} stray={:?}\t{}", case, kind, expect_err, state, stray, if ok { "ok".to_string() } else { format!("dest={state} stray={stray:?} error={kind} expected={expect_err}") }).unwrap();
            }
            Ok(()) => {
                if expect_err { writeln!(out, "mon atomic aarch-case-{} missing include with on-missing=error\tarchive-succeeded", case).unwrap(); continue; }
                *dist.entry("archive-ok".into()).or_insert(0) += 1;
                let dest = root.join("dest");
                std::fs::create_dir_all(&dest).unwrap();
                let er = extract(&arch, &dest);
                if let Err(e) = &er { writeln!(out, "{}\textract-error:{}", req, hexs(&format!("{e:?}"))).unwrap(); continue; }
                let mut got = Vec::new(); walk(dest.as_std_path(), "", &mut got);
                let leaves: Vec<&(String, char)> = got.iter().filter(|(p, k)| *k != 'd' || !got.iter().any(|(q, _)| q.starts_with(&format!("{p}/")))).collect();
                // contents byte for byte
                let mut bad = Vec::new();
                for (p, k) in &leaves {
                    if *k == 'f' && (p == "target/nextest/binaries-metadata.json" || p == "target/nextest/cargo-metadata.json") {
                        // the archive's own metadata must be what this run wrote, never a stale file picked up from the target directory
                        if std::fs::read(dest.join(p)).ok().as_deref() == Some(b"STALE{") { bad.push(format!("{p} (stale copy from the target directory won over the fresh metadata)")); }
                    } else if *k == 'f' {
                        let srcp = tgt.join(p.strip_prefix("target/").unwrap_or(p));
                        if std::fs::read(dest.join(p)).ok() != std::fs::read(&srcp).ok() { bad.push(p.clone()); }
                    }
                }
                let mut names: Vec<String> = leaves.iter().map(|(p, _)| hexs(p)).collect(); names.sort();
                writeln!(out, "{}\t{}", req, names.join(",")).unwrap();
                writeln!(out, "mon bytes aarch-case-{} files={}\t{}", case, leaves.len(), if bad.is_empty() { "ok".to_string() } else { format!("content differs: {bad:?}") }).unwrap();
                *dist.entry(format!("members:{}", (leaves.len() / 5) * 5)).or_insert(0) += 1;
                // remapped paths
                if let Ok(info) = er {
                    let remap = info.target_dir_remap().map(|p| p.to_owned());
                    let okm = remap.as_deref() == Some(dest.canonicalize_utf8().unwrap().join("target").as_path());
                    writeln!(out, "mon remap aarch-case-{}\t{}", case, if okm { "ok".to_string() } else { format!("target-dir remap is {remap:?}") }).unwrap();
                }
            }
        }
    }
    out.flush().unwrap();
    eprintln!("DIST {}", dist.iter().map(|(k, v)| format!("{k}={v}")).collect::<Vec<_>>().join(" "));
}

fn main() {
    let args: Vec<String> = std::env::args().collect();
    let mode = args.get(1).cloned().unwrap_or_else(|| "aval".into());
    let seed: u64 = args.get(2).map(|s| s.parse().unwrap()).unwrap_or(1);
    let n: usize = args.get(3).map(|s| s.parse().unwrap()).unwrap_or(200);
    let dir = Utf8PathBuf::from(args.get(4).cloned().unwrap_or_else(|| format!("/verif/.build/archive-tmp/{}-{}", mode, std::process::id())));
    std::fs::create_dir_all(&dir).unwrap();
    match mode.as_str() {
        "aval" => mode_aval(seed, n, &dir),
        "host" => mode_host(seed, n, &dir),
        "aarch" => mode_aarch(seed, n, &dir),
        _ => { eprintln!("unknown mode"); std::process::exit(2); }
    }
    let _ = std::fs::remove_dir_all(&dir);
}
