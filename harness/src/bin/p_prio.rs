//! In-process correspondence stream for the dispatch order (C08, C02): the real
//! `TestList::to_priority_queue` over generated suites and priority overrides.
use camino::Utf8PathBuf;
use nextest_filtering::ParseContext;
use nextest_metadata::{BuildPlatform, FilterMatch, MismatchReason, RustBinaryId, RustTestBinaryKind, RustTestCaseSummary};
use nextest_runner::config::NextestConfig;
use nextest_runner::list::{RustBuildMeta, RustTestSuite, RustTestSuiteStatus, TestList};
use nextest_runner::platform::BuildPlatforms;
use nextest_runner::reuse_build::PathMapper;
use std::collections::{BTreeMap, BTreeSet};
use std::io::Write;
use verif_harness::{graphgen::GraphSpec, hexs::*, rng::Rng};

fn main() {
    let args: Vec<String> = std::env::args().collect();
    let seed: u64 = args.get(1).map(|s| s.parse().unwrap()).unwrap_or(1);
    let n: usize = args.get(2).map(|s| s.parse().unwrap()).unwrap_or(200);
    let dir = Utf8PathBuf::from(args.get(3).cloned().unwrap_or_else(|| "/verif/.build/prio-tmp".into()));
    std::fs::create_dir_all(dir.join(".config")).unwrap();
    let mut rng = Rng::new(seed ^ 0x9810);
    let out = std::io::stdout();
    let mut out = std::io::BufWriter::new(out.lock());
    let mut dist: BTreeMap<String, u64> = BTreeMap::new();
    let gspec = GraphSpec::random(&mut rng, 2, 0);
    let graph = gspec.build();
    let pcx = ParseContext::new(&graph);
    let pkg = graph.workspace().iter().next().unwrap();
    let names_pool = ["a", "b", "c", "m::a", "m::b", "t1", "t2", "t3", "x", "y", "z", "aa", "ab", "zz"];
    for case in 0..n {
        // suites: 1-4 binaries, each 0-30 tests (sizes above 20 matter for sort implementations)
        let nbins = rng.range(1, 5) as usize;
        let mut suites = Vec::new();
        let mut desc = Vec::new();
        // binary ids whose order as strings differs from their order by components (package name first, then
        // no name < name only < kind/name): `RustBinaryId`'s `Ord` is the latter
        let mut id_pool = vec!["w0", "w0::b2", "w0::b0", "w0-x", "w0-x::b1", "w0::bin/zz", "w0::bench/a", "w0_y::t", "w0::b", "w0::b0-x", "w0.z", "w0-x::bin/a"];
        for i in (1..id_pool.len()).rev() { let j = rng.below(i as u64 + 1) as usize; id_pool.swap(i, j); }
        for b in 0..nbins {
            let bid = id_pool[b].to_string();
            let big = rng.chance(1, 3);
            let nt = if big { rng.range(15, 30) } else { rng.below(6) } as usize;
            let mut cases: BTreeMap<String, RustTestCaseSummary> = BTreeMap::new();
            for k in 0..nt {
                let name = if rng.chance(1, 2) { names_pool[rng.below(names_pool.len() as u64) as usize].to_string() } else { format!("g{:02}", k) };
                let fm = if rng.chance(1, 8) { FilterMatch::Mismatch { reason: MismatchReason::String } } else { FilterMatch::Matches };
                cases.insert(name, RustTestCaseSummary { ignored: false, filter_match: fm });
            }
            desc.push((bid.clone(), cases.keys().cloned().collect::<Vec<_>>()));
            suites.push(RustTestSuite {
                binary_id: RustBinaryId::new(&bid), binary_path: "/fake/bin".into(), package: pkg, binary_name: format!("b{}", b), kind: RustTestBinaryKind::TEST,
                cwd: "/fake".into(), build_platform: BuildPlatform::Target, non_test_binaries: BTreeSet::new(),
                status: RustTestSuiteStatus::Listed { test_cases: cases },
            });
        }
        // priority overrides: filters on test names / binary ids, first match wins
        let nov = rng.below(4) as usize;
        let mut toml = String::new();
        let mut ovs: Vec<(String, String, i64)> = Vec::new(); // (kind, arg, priority)
        for _ in 0..nov {
            let pr = rng.range(0, 6) as i64 - 3;
            let (kind, arg) = match rng.below(3) {
                0 => ("test-eq", names_pool[rng.below(names_pool.len() as u64) as usize].to_string()),
                1 => ("test-contains", ["a", "g1", "m::", "z", "g0"][rng.below(5) as usize].to_string()),
                _ => ("test-contains", ["b", "t", "x", "y"][rng.below(4) as usize].to_string()),
            };
            let filter = match kind { "test-eq" => format!("test(={})", arg), "test-contains" => format!("test(~{})", arg), _ => format!("binary_id(={})", arg) };
            toml.push_str(&format!("[[profile.default.overrides]]\nfilter = '{}'\npriority = {}\n\n", filter, pr));
            ovs.push((kind.to_string(), arg, pr));
        }
        std::fs::write(dir.join(".config/nextest.toml"), &toml).unwrap();
        let cfg = match NextestConfig::from_sources(dir.clone(), &pcx, None, &[][..], &BTreeSet::new()) {
            Ok(c) => c,
            Err(e) => { // e.g. binary_id filter that matches no binary id of the graph: not interesting here
                if case == 0 { eprintln!("config error: {e:?}"); }
                *dist.entry("config-error".into()).or_insert(0) += 1; continue; }
        };
        let bp = BuildPlatforms::new_with_no_target().unwrap();
        let profile = cfg.profile("default").unwrap().apply_build_platforms(&bp);
        let meta = RustBuildMeta::new("/fake", bp.clone()).map_paths(&PathMapper::noop());
        let list = TestList::verif_from_suites(suites, "/fake".into(), meta);
        let order: Vec<String> = list.to_priority_queue(&profile).into_iter().map(|t| format!("{}/{}", hexs(t.instance.suite_info.binary_id.as_str()), hexs(t.instance.name))).collect();
        let total: usize = desc.iter().map(|(_, t)| t.len()).sum();
        *dist.entry(format!("tests:{}", if total > 20 { ">20" } else { "<=20" })).or_insert(0) += 1;
        let bins_s = desc.iter().map(|(b, ts)| format!("{}:{}", hexs(b), hexlist(ts))).collect::<Vec<_>>().join(";");
        let ovs_s = if ovs.is_empty() { ".".to_string() } else { ovs.iter().map(|(k, a, p)| format!("{}:{}:{}", k, hexs(a), p + 100)).collect::<Vec<_>>().join(";") };
        writeln!(out, "prio {} {}\t{}", bins_s, ovs_s, if order.is_empty() { ".".to_string() } else { order.join(",") }).unwrap();
    }
    // thread counts: test-threads / a group's max-threads from the command line (FromStr) and from TOML (Deserialize),
    // positive, relative to the CPU count (negative), and far below zero: the computed count is never below 1
    let ncpu = std::thread::available_parallelism().map(|n| n.get()).unwrap_or(1) as i64;
    for v in [1i64, 2, 7, 64, -1, -2, -(ncpu - 1), -ncpu, -(ncpu + 1), -4096, 0] {
        let cli = match v.to_string().parse::<nextest_runner::config::TestThreads>() { Ok(t) => t.compute().to_string(), Err(_) => "err".to_string() };
        writeln!(out, "threads {} {}\t{}", v, ncpu, cli).unwrap();
        let toml = format!("[test-groups]\ng = {{ max-threads = {} }}\n[profile.default]\ntest-threads = {}\n", v, v);
        std::fs::write(dir.join(".config/nextest.toml"), &toml).unwrap();
        let shown = match NextestConfig::from_sources(dir.clone(), &pcx, None, &[][..], &BTreeSet::new()) {
            Ok(cfg) => {
                let bp = BuildPlatforms::new_with_no_target().unwrap();
                let profile = cfg.profile("default").unwrap().apply_build_platforms(&bp);
                let g = profile.test_group_config().values().next().map(|c| c.max_threads.compute());
                match g { Some(g) if g == profile.test_threads().compute() => g.to_string(), Some(g) => format!("group={}!=profile={}", g, profile.test_threads().compute()), None => "nogroup".to_string() }
            }
            Err(_) => "err".to_string(),
        };
        writeln!(out, "threads {} {}\t{}", v, ncpu, shown).unwrap();
        *dist.entry("threads".into()).or_insert(0) += 2;
    }
    // threads-required: a count, "num-cpus", "num-test-threads", read from TOML (profile level) and computed against several run widths
    for (toml_v, k) in [("1".to_string(), "count:1".to_string()), ("3".to_string(), "count:3".to_string()), ("200".to_string(), "count:200".to_string()),
                        ("\"num-cpus\"".to_string(), "num-cpus".to_string()), ("\"num-test-threads\"".to_string(), "num-test-threads".to_string())] {
        let toml = format!("[profile.default]\nthreads-required = {}\n", toml_v);
        std::fs::write(dir.join(".config/nextest.toml"), &toml).unwrap();
        let cfg = NextestConfig::from_sources(dir.clone(), &pcx, None, &[][..], &BTreeSet::new()).expect("config");
        let bp = BuildPlatforms::new_with_no_target().unwrap();
        let profile = cfg.profile("default").unwrap().apply_build_platforms(&bp);
        for t in [1usize, 2, 4, 16, 1000] {
            writeln!(out, "treq {} {} {}\t{}", k, ncpu, t, profile.threads_required().compute(t)).unwrap();
            *dist.entry("treq".into()).or_insert(0) += 1;
        }
    }
    out.flush().unwrap();
    let d: Vec<String> = dist.iter().map(|(k, v)| format!("{}={}", k, v)).collect();
    eprintln!("DIST {}", d.join(" "));
}
