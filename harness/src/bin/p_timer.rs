//! In-process correspondence stream for the timer primitive behind C09 / C12: the real `PausableSleep` (through the guarded hook
//! `VerifSleep`) on a current-thread runtime whose clock is paused, driven by random operation sequences — advance the clock,
//! pause, resume, reset to a new duration, reset to the last duration — with `fired` (one poll) and `is_paused` recorded after
//! every operation.  Line: `psleep <initial ms> <ops>\t<f|-><P|R>,…`; the Lean model (`Model/Unit.PSleep`) answers the same.
use nextest_runner::verif_hooks::{VerifSleep, VerifStopwatch};
use std::collections::BTreeMap;
use std::io::Write;
use std::time::{Duration, Instant};
use verif_harness::rng::Rng;

fn main() {
    let args: Vec<String> = std::env::args().collect();
    let seed: u64 = args.get(1).map(|s| s.parse().unwrap()).unwrap_or(1);
    let n: usize = args.get(2).map(|s| s.parse().unwrap()).unwrap_or(300);
    let mut rng = Rng::new(seed ^ 0x71e3);
    let out = std::io::stdout();
    let mut out = std::io::BufWriter::new(out.lock());
    let mut dist: BTreeMap<String, u64> = BTreeMap::new();
    for _case in 0..n {
        let init = *rng.pick(&[0u64, 1, 50, 100, 250, 1000]);
        let nops = rng.range(1, 14) as usize;
        // legal sequences only (pause while running, resume while paused): the panics of the illegal ones are `onReq`'s guards
        let mut ops: Vec<String> = Vec::new();
        let mut paused = false;
        for _ in 0..nops {
            match rng.below(10) {
                0..=3 => ops.push(format!("a{}", rng.pick(&[0u64, 1, 10, 49, 50, 51, 100, 200, 1000]))),
                4 | 5 => { if paused { ops.push("r".into()); paused = false; } else { ops.push("p".into()); paused = true; } }
                6 | 7 => ops.push(format!("s{}", rng.pick(&[0u64, 30, 100, 400]))),
                _ => ops.push("l".into()),
            }
        }
        let rt = tokio::runtime::Builder::new_current_thread().enable_time().start_paused(true).build().unwrap();
        let ops2 = ops.clone();
        let res: Vec<String> = rt.block_on(async move {
            let mut s = VerifSleep::new(Duration::from_millis(init));
            let mut res = Vec::new();
            for o in ops2.iter() {
                let (k, v) = o.split_at(1);
                match k {
                    "a" => tokio::time::advance(Duration::from_millis(v.parse().unwrap())).await,
                    "p" => s.pause(),
                    "r" => s.resume(),
                    "s" => s.reset(Duration::from_millis(v.parse().unwrap())),
                    _ => s.reset_last_duration(),
                }
                let f = s.fired();
                res.push(format!("{}{}", if f { "f" } else { "-" }, if s.is_paused() { "P" } else { "R" }));
            }
            res
        });
        for o in ops.iter() { *dist.entry(format!("op:{}", &o[..1])).or_insert(0) += 1; }
        if res.iter().any(|r| r.starts_with('f')) { *dist.entry("fired".into()).or_insert(0) += 1; }
        writeln!(out, "psleep {} {}\t{}", init, ops.join(","), res.join(",")).unwrap();
    }
    // the real `StopwatchStart` (guarded hook `VerifStopwatch`) around real sleeps: every operation is bracketed by two readings of
    // the harness's own clock, and the value of every snapshot goes into the request; the model says whether it lies between
    // what the shortest and the longest times compatible with the readings give.  Line: `swatch <recs>\tin,in,…`
    let nsw = (n / 6).clamp(20, 1500);
    for _case in 0..nsw {
        let origin = Instant::now();
        let us = |t: Instant| t.duration_since(origin).as_micros();
        let b = Instant::now();
        let mut w = VerifStopwatch::new();
        let a = Instant::now();
        let mut recs = vec![format!("n{}:{}", us(b), us(a))];
        let mut paused = false;
        let mut snaps = 0;
        // (corpus, first two cases: two pause / resume cycles with time passing in each state, then a snapshot — running, and paused)
        let fixed: &[u64] = if _case == 0 { &[0, 4, 0, 4, 0, 4, 0, 4, 0, 9] } else if _case == 1 { &[0, 4, 0, 4, 0, 4, 0, 9, 0, 4, 0, 9] } else { &[] };
        let nops = if fixed.is_empty() { rng.range(4, 16) } else { fixed.len() as u64 };
        for i in 0..nops {
            let r = if !fixed.is_empty() { fixed[i as usize] } else if i + 1 == nops { 9 } else { rng.below(10) };
            match r {
                0..=3 => std::thread::sleep(Duration::from_micros(*rng.pick(&[1000u64, 2000, 4000, 7000]))),
                4..=6 => {
                    let b = Instant::now();
                    if paused { w.resume() } else { w.pause() }
                    let a = Instant::now();
                    recs.push(format!("{}{}:{}", if paused { "r" } else { "p" }, us(b), us(a)));
                    paused = !paused;
                    *dist.entry(format!("sw:{}", if paused { "pause" } else { "resume" })).or_insert(0) += 1;
                }
                _ => {
                    let b = Instant::now();
                    let act = w.active();
                    let a = Instant::now();
                    recs.push(format!("s{}:{}:{}", us(b), us(a), act.as_micros()));
                    snaps += 1;
                    *dist.entry(format!("sw:snapshot-{}", if paused { "paused" } else { "running" })).or_insert(0) += 1;
                }
            }
        }
        writeln!(out, "swatch {}\t{}", recs.join(","), vec!["in"; snaps].join(",")).unwrap();
    }
    out.flush().unwrap();
    let d: Vec<String> = dist.iter().map(|(k, v)| format!("{}={}", k, v)).collect();
    eprintln!("DIST {}", d.join(" "));
}
