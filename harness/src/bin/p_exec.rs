//! In-process correspondence streams for C03 (classification of a wait status — exhaustive — and
//! `ExecutionStatuses::describe`) and C07 (`BackoffIter`).
use nextest_runner::config::RetryPolicy;
use nextest_runner::reporter::events::{AbortStatus, ExecutionResult};
use nextest_runner::runner::verif_exec::{backoff_delays, classify, describe};
use std::collections::BTreeMap;
use std::io::Write;
use std::time::Duration;
use verif_harness::rng::Rng;

fn res(r: &ExecutionResult) -> String {
    match r {
        ExecutionResult::Pass => "P".into(),
        ExecutionResult::Leak => "L".into(),
        ExecutionResult::Fail { abort_status: None, leaked } => if *leaked { "Fl".into() } else { "F".into() },
        ExecutionResult::Fail { abort_status: Some(AbortStatus::UnixSignal(s)), .. } => format!("FS{s}"),
        ExecutionResult::ExecFail => "X".into(),
        ExecutionResult::Timeout => "T".into(),
    }
}

fn main() {
    let args: Vec<String> = std::env::args().collect();
    let seed: u64 = args.get(1).map(|s| s.parse().unwrap()).unwrap_or(1);
    let n: usize = args.get(2).map(|s| s.parse().unwrap()).unwrap_or(500);
    let mut rng = Rng::new(seed ^ 0xE8EC);
    let out = std::io::stdout();
    let mut out = std::io::BufWriter::new(out.lock());
    let mut dist: BTreeMap<String, u64> = BTreeMap::new();
    // exhaustive: every exit code, every signal (with and without core dump), x errors x leaked
    for code in 0..256i32 {
        for e in 0..2 { for l in 0..2 {
            let raw = code << 8;
            writeln!(out, "classify {} {} {}\t{}", raw, e, l, res(&classify(raw, e == 1, l == 1))).unwrap();
        } }
    }
    for sig in 1..=64i32 {
        if sig == 127 { continue; }
        for core in 0..2 { for e in 0..2 { for l in 0..2 {
            let raw = sig | (core << 7);
            writeln!(out, "classify {} {} {}\t{}", raw, e, l, res(&classify(raw, e == 1, l == 1))).unwrap();
        } } }
    }
    *dist.entry("classify:exhaustive".into()).or_insert(0) += 256 * 4 + 64 * 8;
    // describe: exhaustive over every sequence of 1..=4 attempt results over the 7 result shapes
    let alphabet: Vec<(ExecutionResult, &str)> = vec![
        (ExecutionResult::Pass, "P"), (ExecutionResult::Leak, "L"), (ExecutionResult::Fail { abort_status: None, leaked: false }, "F"),
        (ExecutionResult::Fail { abort_status: None, leaked: true }, "Fl"), (ExecutionResult::Fail { abort_status: Some(AbortStatus::UnixSignal(9)), leaked: false }, "FS9"),
        (ExecutionResult::ExecFail, "X"), (ExecutionResult::Timeout, "T")];
    for len in 1..=4usize {
        let total = alphabet.len().pow(len as u32);
        for code in 0..total {
            let mut c = code; let mut rs = Vec::new(); let mut names = Vec::new();
            for _ in 0..len { let (r, n) = &alphabet[c % alphabet.len()]; rs.push(*r); names.push(*n); c /= alphabet.len(); }
            let d = match describe(rs) { "success" => "Success", "flaky" => "Flaky", _ => "Failure" };
            writeln!(out, "describe {}\t{}", names.join(","), d).unwrap();
        }
    }
    *dist.entry("describe:exhaustive-len<=4".into()).or_insert(0) += 7 + 49 + 343 + 2401;
    // backoff
    for _ in 0..n {
        let count = rng.below(9) as usize;
        let delay_ms = *rng.pick(&[0u64, 1, 3, 7, 10, 50, 100, 250, 1000, 1500, 60_000]);
        let jitter = rng.chance(1, 3);
        let delay = Duration::from_millis(delay_ms);
        if rng.chance(1, 2) {
            let p = RetryPolicy::Fixed { count, delay, jitter };
            let ds = backoff_delays(p);
            *dist.entry("backoff:fixed".into()).or_insert(0) += 1;
            writeln!(out, "backoff f {} {} {} -\t{}", count, delay.as_nanos(), jitter as u8, if ds.is_empty() { ".".to_string() } else { ds.iter().map(|d| d.as_nanos().to_string()).collect::<Vec<_>>().join(",") }).unwrap();
        } else {
            let max_ms: Option<u64> = if rng.chance(1, 2) { Some(delay_ms.max(1) * *rng.pick(&[1u64, 2, 3, 5, 8, 100])) } else { None };
            let p = RetryPolicy::Exponential { count, delay, jitter, max_delay: max_ms.map(Duration::from_millis) };
            let ds = backoff_delays(p);
            *dist.entry(format!("backoff:exponential{}", if max_ms.is_some() { "+max" } else { "" })).or_insert(0) += 1;
            writeln!(out, "backoff e {} {} {} {}\t{}", count, delay.as_nanos(), jitter as u8, max_ms.map_or("-".to_string(), |m| (m as u128 * 1_000_000).to_string()),
                if ds.is_empty() { ".".to_string() } else { ds.iter().map(|d| d.as_nanos().to_string()).collect::<Vec<_>>().join(",") }).unwrap();
        }
    }
    // long retry chains (a test that keeps failing): the iterator must keep yielding the capped delay, never fail
    for (count, delay_ms, max_ms) in [(80usize, 1u64, 1000u64), (150, 1, 50), (1100, 10, 10), (90, 1, 60_000), (300, 250, 250)] {
        let delay = Duration::from_millis(delay_ms);
        let p = RetryPolicy::Exponential { count, delay, jitter: false, max_delay: Some(Duration::from_millis(max_ms)) };
        let prev = std::panic::take_hook();
        std::panic::set_hook(Box::new(|_| {}));
        let res = std::panic::catch_unwind(|| backoff_delays(p));
        std::panic::set_hook(prev);
        *dist.entry("backoff:exponential+max:long".into()).or_insert(0) += 1;
        let shown = match res {
            Ok(ds) => ds.iter().map(|d| d.as_nanos().to_string()).collect::<Vec<_>>().join(","),
            Err(_) => "panic".to_string(),
        };
        writeln!(out, "backoff e {} {} 0 {}\t{}", count, delay.as_nanos(), max_ms as u128 * 1_000_000, shown).unwrap();
    }
    out.flush().unwrap();
    let d: Vec<String> = dist.iter().map(|(k, v)| format!("{}={}", k, v)).collect();
    eprintln!("DIST {}", d.join(" "));
}
