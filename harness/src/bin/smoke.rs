use verif_harness::{graphgen::GraphSpec, rng::Rng};
fn main() {
    let mut rng = Rng::new(1);
    for _ in 0..50 {
        let g = GraphSpec::random(&mut rng, 4, 3);
        let graph = g.build();
        println!("{} packages, {} ws", graph.package_count(), graph.workspace().member_count());
    }
}
