//! Runs the real filterset parser on a deeply nested input (own process: a stack overflow aborts it).
use nextest_filtering::verif_hooks::parse_raw;
fn main() {
    let a: Vec<String> = std::env::args().collect();
    let d: usize = a[2].parse().unwrap();
    let s = match a[1].as_str() {
        "paren" => format!("{}all(){}", "(".repeat(d), ")".repeat(d)),
        "bang" => format!("{}all()", "!".repeat(d)),
        _ => format!("{}all()", "not ".repeat(d)),
    };
    let (e, errs) = parse_raw(&s);
    println!("{} {}", if e.is_some() { "expr" } else { "none" }, errs.len());
}
