//! In-process correspondence stream for C20 / C05 (syntax half): the real filterset parser and printer
//! against the Lean model.  Lines: `parse <hex> .`, `rt <hex> .`, `mon span-in-input <hex>`.
//! Sub-command `oracle`: reads `r<hex>` / `g<hex>` lines, answers regex / glob validity from the
//! `regex` and `globset` crates directly.
use nextest_filtering::errors::ParseSingleError;
use nextest_filtering::verif_hooks::{parse_raw, sexpr};
use std::collections::BTreeMap;
use std::io::{BufRead, Write};
use verif_harness::{hexs::*, rng::Rng};

fn err_str(e: &ParseSingleError) -> String {
    use ParseSingleError::*;
    let s = |k: &str, sp: &miette::SourceSpan| format!("{}:{}:{}", k, sp.offset(), sp.len());
    match e {
        InvalidRegex { span, .. } => s("InvalidRegex", span),
        InvalidRegexWithoutMessage(sp) => s("InvalidRegex", sp),
        InvalidGlob { span, .. } => s("InvalidGlob", span),
        ExpectedCloseRegex(sp) => s("ExpectedCloseRegex", sp),
        InvalidOrOperator(sp) => s("InvalidOrOperator", sp),
        InvalidAndOperator(sp) => s("InvalidAndOperator", sp),
        UnexpectedArgument(sp) => s("UnexpectedArgument", sp),
        UnexpectedComma(sp) => s("UnexpectedComma", sp),
        InvalidString(sp) => s("InvalidString", sp),
        ExpectedOpenParenthesis(sp) => s("ExpectedOpenParenthesis", sp),
        ExpectedCloseParenthesis(sp) => s("ExpectedCloseParenthesis", sp),
        InvalidEscapeCharacter(sp) => s("InvalidEscapeCharacter", sp),
        ExpectedExpr(sp) => s("ExpectedExpr", sp),
        ExpectedEndOfExpression(sp) => s("ExpectedEndOfExpression", sp),
        InvalidPlatformArgument(sp) => s("InvalidPlatformArgument", sp),
        other => format!("Other({other:?})"),
    }
}

fn raw_span(e: &ParseSingleError) -> Option<(usize, usize)> {
    use ParseSingleError::*;
    let f = |sp: &miette::SourceSpan| Some((sp.offset(), sp.len()));
    match e {
        InvalidRegex { span, .. } | InvalidGlob { span, .. } | BannedPredicate { span, .. } => f(span),
        InvalidRegexWithoutMessage(sp) | ExpectedCloseRegex(sp) | InvalidOrOperator(sp) | InvalidAndOperator(sp)
        | UnexpectedArgument(sp) | UnexpectedComma(sp) | InvalidString(sp) | ExpectedOpenParenthesis(sp)
        | ExpectedCloseParenthesis(sp) | InvalidEscapeCharacter(sp) | ExpectedExpr(sp) | ExpectedEndOfExpression(sp)
        | NoPackageMatch(sp) | NoBinaryIdMatch(sp) | NoBinaryNameMatch(sp) | InvalidPlatformArgument(sp) => f(sp),
        _ => None,
    }
}

const NAME_ATOMS: &[&str] = &[
    "foo", "bar", "a", "b", "x", "test_", "m::", "a b", " ", "=", "~", "#", "'", "\"", "\\\\", "\\)", "\\,", "\\/", "\\t", "\\n", "\\r",
    "\\b", "\\f", "\\u{41}", "\\u{3d}", "\\u{20}", "\\u{23}", "\\u{7e}", "\\u{0}", "\\u{1f}", "\\u{7f}", "\\u{e9}", "\\u{2028}", "\\u{10ffff}",
    "é", "日本", "*", "?", "[ab]", "{a\\,b}", "-", ".", "!", "&", "|", "+", "(", "{", "}", "[", "]", "^", "$", "\u{a0}", "\u{3000}", "\t",
];
const BAD_ESC: &[&str] = &["\\q", "\\u{d800}", "\\u{110000}", "\\u{}", "\\u{1234567}", "\\u{12", "\\", "\\'", "\\\"", "\\0", "\\x41", "\\u41"];
const REGEX_ATOMS: &[&str] = &["a", "b.*", "^x", "y$", "\\w+", "\\/", "\\\\", "\\\\\\/", "[a-z]", "(a|b)", "\\p{Greek}", " ", "\\.", "é", "a{2}", "\\d", "\\\\/"];
const BAD_REGEX: &[&str] = &["(", "[a", "a{2", "*a", "\\p{Nope}", "(?P<n", "a**", "\\",
    // accepted by regex-syntax, refused by regex (compiled size limit): InvalidRegexWithoutMessage
    "\\w{1000}{1000}", "(a{1000}){1000}x", "[a-z]{500}{500}{4}", "é{900}{900}{2}"];
const GLOB_ATOMS: &[&str] = &["foo", "*", "?", "[ab]", "[!a]", "{a\\,b}", "x", "-", "w", "**", "{", "}", "[", "]", "[b-a]", "\\\\"];

fn pick_join(rng: &mut Rng, atoms: &[&str], lo: u64, hi: u64) -> String {
    let n = rng.range(lo, hi);
    (0..n).map(|_| *rng.pick(atoms)).collect()
}

fn blanks(rng: &mut Rng) -> &'static str {
    *rng.pick(&["", "", "", " ", " ", "  ", "\n", "\r\n", " \n "])
}

fn gen_matcher(rng: &mut Rng, dist: &mut BTreeMap<String, u64>) -> String {
    let k = rng.below(12);
    let (tag, s) = match k {
        0 | 1 | 2 => ("implicit", pick_join(rng, NAME_ATOMS, 1, 3)),
        3 => ("equal", format!("={}", pick_join(rng, NAME_ATOMS, 0, 3))),
        4 => ("contains", format!("~{}", pick_join(rng, NAME_ATOMS, 0, 3))),
        5 | 6 => ("regex", format!("/{}/", pick_join(rng, REGEX_ATOMS, 1, 3))),
        7 => ("glob", format!("#{}", pick_join(rng, GLOB_ATOMS, 1, 3))),
        8 => ("bad-escape", format!("{}{}", pick_join(rng, NAME_ATOMS, 0, 2), rng.pick(BAD_ESC))),
        9 => ("bad-regex", format!("/{}{}/", pick_join(rng, REGEX_ATOMS, 0, 2), rng.pick(BAD_REGEX))),
        10 => ("unclosed-regex", format!("/{}", pick_join(rng, REGEX_ATOMS, 1, 2))),
        _ => ("empty", String::new()),
    };
    *dist.entry(format!("matcher:{tag}")).or_insert(0) += 1;
    s
}

fn gen_leaf(rng: &mut Rng, dist: &mut BTreeMap<String, u64>) -> String {
    let k = rng.below(14);
    let pred = match k {
        0 | 1 | 2 => "test", 3 => "package", 4 => "deps", 5 => "rdeps", 6 => "kind", 7 => "binary", 8 => "binary_id",
        9 => "platform", 10 => "all", 11 => "none", 12 => "default", _ => "test",
    };
    *dist.entry(format!("pred:{pred}")).or_insert(0) += 1;
    match pred {
        "platform" => format!("platform({}{}{})", blanks(rng), rng.pick(&["host", "target", "host", "target", "hosts", "", " ", "\\t", "\u{a0}", "=host", "ho\\u{73}t"]), blanks(rng)),
        "all" | "none" | "default" => format!("{}({})", pred, rng.pick(&["", "", "", " ", "x", " x ", "\u{a0}", "\n"])),
        _ => {
            let m = gen_matcher(rng, dist);
            let extra = if rng.chance(1, 15) { *rng.pick(&[",b", " , b", ","]) } else { "" };
            format!("{}({}{}{}{})", pred, blanks(rng), m, extra, if rng.chance(1, 6) { blanks(rng) } else { "" })
        }
    }
}

fn gen_expr(rng: &mut Rng, depth: u32, dist: &mut BTreeMap<String, u64>) -> String {
    if depth == 0 || rng.chance(2, 5) { return gen_leaf(rng, dist); }
    match rng.below(6) {
        0 => { let op = *rng.pick(&["not ", "!", "! ", "not  ", "not\n"]); format!("{}{}", op, gen_expr(rng, depth - 1, dist)) }
        1 => { let op = *rng.pick(&[" or ", "|", " | ", "+", " + ", " or\n", "||", " OR ", "or"]); format!("{}{}{}", gen_expr(rng, depth - 1, dist), op, gen_expr(rng, depth - 1, dist)) }
        2 => { let op = *rng.pick(&[" and ", "&", " & ", " and\n", "&&", " AND ", "and"]); format!("{}{}{}", gen_expr(rng, depth - 1, dist), op, gen_expr(rng, depth - 1, dist)) }
        3 => { let op = *rng.pick(&["-", " - ", " -"]); format!("{}{}{}", gen_expr(rng, depth - 1, dist), op, gen_expr(rng, depth - 1, dist)) }
        4 => format!("({}{}{})", blanks(rng), gen_expr(rng, depth - 1, dist), blanks(rng)),
        _ => format!("{}{}{}", blanks(rng), gen_expr(rng, depth - 1, dist), blanks(rng)),
    }
}

const MUT_ALPHABET: &[char] = &['(', ')', '&', '|', '+', '-', '!', '/', '#', '=', '~', ',', '\\', ' ', '\n', '\r', 't', 'u', '{', '}', 'a', 'n', 'o', 'r', 'd', 'é', '\u{a0}'];

fn mutate(rng: &mut Rng, s: &str) -> String {
    let mut cs: Vec<char> = s.chars().collect();
    for _ in 0..rng.range(1, 3) {
        if cs.is_empty() { cs.push(*rng.pick(MUT_ALPHABET)); continue; }
        let i = rng.below(cs.len() as u64) as usize;
        match rng.below(4) {
            0 => { cs.remove(i); }
            1 => { cs.insert(i, *rng.pick(MUT_ALPHABET)); }
            2 => { cs[i] = *rng.pick(MUT_ALPHABET); }
            _ => { cs.truncate(i); }
        }
    }
    cs.into_iter().collect()
}

fn emit(out: &mut impl Write, input: &str, dist: &mut BTreeMap<String, u64>) {
    let res = std::panic::catch_unwind(|| parse_raw(input));
    let (expr, errors) = match res {
        Ok(r) => r,
        Err(_) => { writeln!(out, "parse {} .\tpanic", hexs(input)).unwrap(); return; }
    };
    let errs: Vec<String> = errors.iter().map(err_str).collect();
    let line = match (&expr, errors.is_empty()) {
        (Some(e), true) => format!("ok {}", sexpr(e, true)),
        (Some(e), false) => format!("ok+err {} ; {}", sexpr(e, true), errs.join(",")),
        (None, _) => format!("err {}", errs.join(",")),
    };
    *dist.entry(format!("result:{}", line.split(' ').next().unwrap())).or_insert(0) += 1;
    for e in &errors { *dist.entry(format!("errkind:{}", err_str(e).split(':').next().unwrap())).or_insert(0) += 1; }
    writeln!(out, "parse {} .\t{}", hexs(input), line).unwrap();
    // property monitors on the real result: an expression or >= 1 error; every span inside the input
    let mut mon = "ok".to_string();
    if expr.is_none() && errors.is_empty() { mon = "FAIL no-expression-and-no-error".into(); }
    for e in &errors {
        if let Some((o, l)) = raw_span(e) { if o + l > input.len() { mon = format!("FAIL span {}+{} outside input of {} bytes ({})", o, l, input.len(), err_str(e)); } }
    }
    writeln!(out, "mon span-in-input {}\t{}", hexs(input), mon).unwrap();
    // round trip
    let rt = match (&expr, errors.is_empty()) {
        (Some(e), true) => {
            let text = e.to_string();
            let (e2, errs2) = parse_raw(&text);
            match (e2, errs2.is_empty()) {
                (Some(e2), true) => format!("rt {} {}", hexs(&text), if sexpr(&e2, false) == sexpr(e, false) { "same" } else { "diff" }),
                _ => format!("rt {} reparse-failed", hexs(&text)),
            }
        }
        _ => "rt-skip".to_string(),
    };
    *dist.entry(format!("rt:{}", rt.split(' ').last().unwrap())).or_insert(0) += 1;
    writeln!(out, "rt {} .\t{}", hexs(input), rt).unwrap();
}

fn oracle() {
    let stdin = std::io::stdin();
    let out = std::io::stdout();
    let mut out = out.lock();
    for line in stdin.lock().lines() {
        let line = line.unwrap();
        let (k, h) = line.split_at(1);
        let text = String::from_utf8(unhex(h)).unwrap();
        if k == "r" {
            // what `regex` says, and for a refused text the span `regex-syntax` blames (none: it accepts the text)
            if regex::Regex::new(&text).is_ok() { writeln!(out, "1").unwrap(); continue; }
            let ans = match regex_syntax::Parser::new().parse(&text) {
                Ok(_) => "0".to_string(),
                Err(regex_syntax::Error::Parse(e)) => format!("0~{}~{}", e.span().start.offset, e.span().end.offset),
                Err(regex_syntax::Error::Translate(e)) => format!("0~{}~{}", e.span().start.offset, e.span().end.offset),
                Err(_) => "0".to_string(),
            };
            writeln!(out, "{}", ans).unwrap();
            continue;
        }
        let ok = {
            match globset::GlobBuilder::new(&text).backslash_escape(false).empty_alternates(true).build() {
                Ok(g) => regex::bytes::Regex::new(g.regex()).is_ok(),
                Err(_) => false,
            }
        };
        writeln!(out, "{}", if ok { 1 } else { 0 }).unwrap();
    }
}

fn main() {
    let args: Vec<String> = std::env::args().collect();
    if args.get(1).map(|s| s.as_str()) == Some("oracle") { oracle(); return; }
    std::panic::set_hook(Box::new(|_| {}));
    let seed: u64 = args.get(1).map(|s| s.parse().unwrap()).unwrap_or(1);
    let n: usize = args.get(2).map(|s| s.parse().unwrap()).unwrap_or(1000);
    let mut rng = Rng::new(seed ^ 0x5157);
    let out = std::io::stdout();
    let mut out = std::io::BufWriter::new(out.lock());
    let mut dist: BTreeMap<String, u64> = BTreeMap::new();
    // fixed corpus of documented forms and past findings
    for s in ["all()", "test(foo)", "test(foo'bar)", "test(\\u{3d}foo)", "test(/\\\\//)", "not test(a) & package(b) | kind(lib)", "a - b & c", "test(a) - test(b) & test(c)",
              "test(a) | test(b) + test(c)", "platform()", "platform( )", "test(", "test(a) or", "(", ")", "", " ", "test(a)) ", "!(all())", "not(all())"] {
        emit(&mut out, s, &mut dist);
    }
    for i in 0..n {
        let depth = (rng.below(4)) as u32;
        let base = gen_expr(&mut rng, depth, &mut dist);
        let input = match i % 4 {
            0 | 1 => { *dist.entry("stream:grammar".into()).or_insert(0) += 1; base }
            2 => { *dist.entry("stream:mutated".into()).or_insert(0) += 1; mutate(&mut rng, &base) }
            _ => {
                if rng.chance(1, 2) { *dist.entry("stream:prefix".into()).or_insert(0) += 1; let cs: Vec<char> = base.chars().collect(); let k = rng.below(cs.len() as u64 + 1) as usize; cs[..k].iter().collect() }
                else { *dist.entry("stream:junk".into()).or_insert(0) += 1; let k = rng.below(12); (0..k).map(|_| *rng.pick(MUT_ALPHABET)).collect() }
            }
        };
        emit(&mut out, &input, &mut dist);
    }
    out.flush().unwrap();
    let d: Vec<String> = dist.iter().map(|(k, v)| format!("{}={}", k, v)).collect();
    eprintln!("DIST {}", d.join(" "));
}
