//! In-process correspondence stream for C05 (semantic half): `Filterset::parse` + `matches_test` +
//! `matches_binary` over generated package graphs, against the Lean denotation.
use guppy::graph::{BuildTargetId, DependencyDirection, PackageGraph};
use nextest_filtering::errors::ParseSingleError;
use nextest_filtering::{BinaryQuery, EvalContext, Filterset, FiltersetKind, ParseContext, TestQuery};
use nextest_metadata::{RustBinaryId, RustTestBinaryKind};
use std::collections::{BTreeMap, BTreeSet};
use std::io::Write;
use verif_harness::{graphgen::GraphSpec, hexs::*, rng::Rng};

const REGEXES: &[&str] = &["^w", "0$", "a.*b", "[xy]", "t_", "^(lib|test)$", "::", "é"];
const TEST_NAMES: &[&str] = &["a", "ab", "foo", "foo_bar", "m::t_a", "m::t_b", "xay", "b", "é", "test_w0", "a b", "x\ny"];

fn cerr(e: &ParseSingleError) -> String {
    use ParseSingleError::*;
    let s = |k: &str, sp: &miette::SourceSpan| format!("{}:{}:{}", k, sp.offset(), sp.len());
    match e {
        BannedPredicate { span, .. } => s("BannedPredicate", span),
        NoPackageMatch(sp) => s("NoPackageMatch", sp),
        NoBinaryIdMatch(sp) => s("NoBinaryIdMatch", sp),
        NoBinaryNameMatch(sp) => s("NoBinaryNameMatch", sp),
        other => format!("Other({other:?})"),
    }
}

struct Gen<'a> { rng: &'a mut Rng, pkgs: Vec<String>, bnames: Vec<String>, bids: Vec<String>, used_regex: BTreeSet<&'static str>, dist: &'a mut BTreeMap<String, u64> }

impl Gen<'_> {
    fn name_glob(&mut self, pool: &[String]) -> String {
        let base = self.rng.pick(pool).clone();
        let cs: Vec<char> = base.chars().collect();
        match self.rng.below(8) {
            0 => base.replace(',', "\\,"),
            1 => "*".to_string(),
            2 => format!("{}*", cs[0]),
            3 => { let mut c = cs.clone(); let i = self.rng.below(c.len() as u64) as usize; if c[i].is_ascii_alphanumeric() { c[i] = '?'; } c.into_iter().collect::<String>().replace(',', "\\,") }
            4 => format!("*{}", cs[cs.len() - 1]),
            5 => { let other = self.rng.pick(pool).clone(); format!("{{{}\\,{}}}", base, other) }
            6 => if cs[0].is_ascii_alphanumeric() { format!("[{}x]{}", cs[0], cs[1..].iter().collect::<String>()) } else { base.clone() },
            _ => format!("{}{}", self.rng.pick(&["zz", "nomatch", "q*"]), ""),
        }
    }
    fn matcher(&mut self, pool: &[String], default_kind: &str) -> String {
        let k = self.rng.below(10);
        let tag;
        let s = match k {
            0 | 1 | 2 => { tag = "implicit"; if default_kind == "glob" { self.name_glob(pool) } else { self.rng.pick(pool).clone() } }
            3 | 4 => { tag = "equal"; format!("={}", self.rng.pick(pool)) }
            5 => { tag = "contains"; let b: Vec<char> = self.rng.pick(pool).chars().collect(); let i = self.rng.below(b.len() as u64) as usize; format!("~{}", b[i..(i + 2).min(b.len())].iter().collect::<String>()) }
            6 | 7 => { tag = "regex"; let r = *self.rng.pick(REGEXES); self.used_regex.insert(r); format!("/{}/", r) }
            _ => { tag = "glob"; format!("#{}", self.name_glob(pool)) }
        };
        *self.dist.entry(format!("matcher:{tag}")).or_insert(0) += 1;
        // escape characters the string syntax treats specially
        s.replace('\n', "\\n").replace(' ', " ")
    }
    fn leaf(&mut self, allow_default: bool) -> String {
        let k = self.rng.below(16);
        let pkgs = self.pkgs.clone(); let bn = self.bnames.clone(); let bi = self.bids.clone();
        let tests: Vec<String> = TEST_NAMES.iter().map(|s| s.to_string()).collect();
        let kinds: Vec<String> = ["lib", "test", "bin", "bench", "example"].iter().map(|s| s.to_string()).collect();
        let (p, s) = match k {
            0 | 1 | 2 => ("test", format!("test({})", self.matcher(&tests, "contains"))),
            3 | 4 => ("package", format!("package({})", self.matcher(&pkgs, "glob"))),
            5 | 6 => ("deps", format!("deps({})", self.matcher(&pkgs, "glob"))),
            7 | 8 => ("rdeps", format!("rdeps({})", self.matcher(&pkgs, "glob"))),
            9 => ("kind", format!("kind({})", self.matcher(&kinds, "equal"))),
            10 => ("binary", format!("binary({})", self.matcher(&bn, "glob"))),
            11 => ("binary_id", format!("binary_id({})", self.matcher(&bi, "glob"))),
            12 => ("platform", format!("platform({})", self.rng.pick(&["host", "target"]))),
            13 => ("all", "all()".to_string()),
            14 => ("none", "none()".to_string()),
            _ => if allow_default { ("default", "default()".to_string()) } else { ("all", "all()".to_string()) },
        };
        *self.dist.entry(format!("pred:{p}")).or_insert(0) += 1;
        s
    }
    fn expr(&mut self, depth: u32, allow_default: bool) -> String {
        if depth == 0 || self.rng.chance(1, 3) { return self.leaf(allow_default); }
        match self.rng.below(5) {
            0 => format!("{}{}", self.rng.pick(&["not ", "!", "! "]), self.expr(depth - 1, allow_default)),
            1 => format!("{}{}{}", self.expr(depth - 1, allow_default), self.rng.pick(&[" or ", "|", " | ", "+", " + "]), self.expr(depth - 1, allow_default)),
            2 => format!("{}{}{}", self.expr(depth - 1, allow_default), self.rng.pick(&[" and ", "&", " & "]), self.expr(depth - 1, allow_default)),
            3 => format!("{}{}{}", self.expr(depth - 1, allow_default), self.rng.pick(&["-", " - "]), self.expr(depth - 1, allow_default)),
            _ => format!("({})", self.expr(depth - 1, allow_default)),
        }
    }
}

fn main() {
    let args: Vec<String> = std::env::args().collect();
    let seed: u64 = args.get(1).map(|s| s.parse().unwrap()).unwrap_or(1);
    let n: usize = args.get(2).map(|s| s.parse().unwrap()).unwrap_or(500);
    let mut rng = Rng::new(seed ^ 0xE7A1);
    let out = std::io::stdout();
    let mut out = std::io::BufWriter::new(out.lock());
    let mut dist: BTreeMap<String, u64> = BTreeMap::new();
    let mut case = 0;
    while case < n {
        let (nws, next) = (rng.range(2, 5) as usize, rng.below(4) as usize);
        let gspec = GraphSpec::random_cyclic(&mut rng, nws, next);
        let graph: PackageGraph = gspec.build();
        let pcx = ParseContext::new(&graph);
        // model-side description of the graph, indices = positions in gspec.pkgs
        let names: Vec<String> = gspec.pkgs.iter().map(|p| p.name.clone()).collect();
        let wsbits: String = gspec.pkgs.iter().map(|p| if p.workspace { '1' } else { '0' }).collect();
        let edges: Vec<String> = gspec.pkgs.iter().map(|p| if p.deps.is_empty() { "_".to_string() } else { p.deps.iter().map(|(j, _)| j.to_string()).collect::<Vec<_>>().join(".") }).collect();
        let has_ext_path = gspec.pkgs.iter().enumerate().any(|(i, p)| p.workspace && p.deps.iter().any(|(j, _)| !gspec.pkgs[*j].workspace && gspec.pkgs[*j].deps.iter().any(|(k, _)| gspec.pkgs[*k].workspace && !p.deps.iter().any(|(d, _)| d == k)) && i != *j));
        if has_ext_path { *dist.entry("graph:path-through-non-workspace".into()).or_insert(0) += 1; }
        if gspec.has_back_edge() { *dist.entry("graph:dev-dependency-cycle-candidates".into()).or_insert(0) += 1; }
        // binaries: every test-capable target of every workspace package
        let mut bins: Vec<(usize, String, String, String)> = Vec::new(); // (pkg idx, id, name, kind)
        for pkg in graph.resolve_workspace().packages(DependencyDirection::Forward) {
            let idx = names.iter().position(|n| n == pkg.name()).unwrap();
            for bt in pkg.build_targets() {
                let kind = match bt.id() {
                    BuildTargetId::Library => RustTestBinaryKind::LIB,
                    BuildTargetId::Benchmark(_) => RustTestBinaryKind::BENCH,
                    BuildTargetId::Example(_) => RustTestBinaryKind::EXAMPLE,
                    BuildTargetId::Binary(_) => RustTestBinaryKind::BIN,
                    BuildTargetId::Test(_) => RustTestBinaryKind::TEST,
                    _ => continue,
                };
                let id = RustBinaryId::from_parts(pkg.name(), &kind, bt.name());
                bins.push((idx, id.as_str().to_string(), bt.name().to_string(), kind.as_str().to_string()));
            }
        }
        bins.sort();
        let bnames: Vec<String> = bins.iter().map(|b| b.2.clone()).collect::<BTreeSet<_>>().into_iter().collect();
        let bids: Vec<String> = bins.iter().map(|b| b.1.clone()).collect::<BTreeSet<_>>().into_iter().collect();
        let wsnames: Vec<String> = gspec.pkgs.iter().filter(|p| p.workspace).map(|p| p.name.clone()).collect();
        for _ in 0..15 {
            if case >= n { break; }
            case += 1;
            let mut g = Gen { rng: &mut rng, pkgs: wsnames.clone(), bnames: bnames.clone(), bids: bids.clone(), used_regex: BTreeSet::new(), dist: &mut dist };
            let dflt = if g.rng.chance(1, 3) { "all()".to_string() } else { let allow = g.rng.chance(1, 12); g.expr(2, allow) };
            let depth = g.rng.range(0, 4) as u32;
            let expr = g.expr(depth, true);
            let used: Vec<&'static str> = g.used_regex.iter().copied().collect();
            // queries: a sample of binaries x test names x platform
            let mut queries = Vec::new();
            let nb = bins.len().min(6);
            for bi in 0..nb {
                let b = &bins[(bi * 7 + case) % bins.len()];
                for t in 0..3 {
                    let tn = TEST_NAMES[(case + bi * 3 + t * 5) % TEST_NAMES.len()];
                    let host = (case + bi + t) % 3 == 0;
                    queries.push((b.clone(), tn, host));
                }
            }
            // regex truth for every (used regex, subject) pair
            let mut subjects: BTreeSet<String> = BTreeSet::new();
            for s in wsnames.iter().chain(bnames.iter()).chain(bids.iter()) { subjects.insert(s.clone()); }
            for s in TEST_NAMES { subjects.insert(s.to_string()); }
            for s in ["lib", "test", "bin", "bench", "example", "proc-macro"] { subjects.insert(s.to_string()); }
            let mut rt = Vec::new();
            for r in &used {
                let re = regex::Regex::new(r).unwrap();
                for s in &subjects { rt.push(format!("{}:{}:{}", hexs(r), hexs(s), if re.is_match(s) { 1 } else { 0 })); }
            }
            let qs: Vec<String> = queries.iter().map(|(b, tn, host)| format!("{}:{}:{}:{}:{}:{}", b.0, hexs(&b.1), hexs(&b.2), hexs(&b.3), if *host { "h" } else { "t" }, hexs(tn))).collect();
            let req = format!("eval {} {} {} {} {} {} {} {} {}", hexlist(&names), wsbits, edges.join(";"), hexlist(&bnames), hexlist(&bids), hexs(&dflt), hexs(&expr),
                if rt.is_empty() { ".".to_string() } else { rt.join(",") }, qs.join(";"));
            // implementation
            let d = match Filterset::parse(dflt.clone(), &pcx, FiltersetKind::DefaultFilter) {
                Ok(d) => d,
                Err(e) => { *dist.entry("result:default-error".into()).or_insert(0) += 1; writeln!(out, "{}\tdefault-error {}", req, e.errors.iter().map(cerr).collect::<Vec<_>>().join(",")).unwrap(); continue; }
            };
            let f = match Filterset::parse(expr.clone(), &pcx, FiltersetKind::Test) {
                Ok(f) => f,
                Err(e) => { *dist.entry("result:compile-error".into()).or_insert(0) += 1; writeln!(out, "{}\terror {}", req, e.errors.iter().map(cerr).collect::<Vec<_>>().join(",")).unwrap(); continue; }
            };
            let ecx = EvalContext { default_filter: &d.compiled };
            let mut tb = String::new();
            let mut bb = String::new();
            for (b, tn, host) in &queries {
                let pkg = graph.workspace().member_by_name(&names[b.0]).unwrap();
                let id = RustBinaryId::new(&b.1);
                let kind = RustTestBinaryKind::new(b.3.clone());
                let bq = BinaryQuery { package_id: pkg.id(), binary_id: &id, binary_name: &b.2, kind: &kind,
                    platform: if *host { guppy::graph::cargo::BuildPlatform::Host } else { guppy::graph::cargo::BuildPlatform::Target } };
                let tq = TestQuery { binary_query: bq, test_name: tn };
                tb.push(if f.matches_test(&tq, &ecx) { '1' } else { '0' });
                bb.push(match f.matches_binary(&bq, &ecx) { Some(true) => '1', Some(false) => '0', None => '?' });
            }
            let constant = tb.chars().all(|c| c == '1') || tb.chars().all(|c| c == '0');
            *dist.entry(if constant { "result:constant-over-queries".to_string() } else { "result:non-constant".to_string() }).or_insert(0) += 1;
            writeln!(out, "{}\t{}/{}", req, tb, bb).unwrap();
        }
    }
    out.flush().unwrap();
    let d: Vec<String> = dist.iter().map(|(k, v)| format!("{}={}", k, v)).collect();
    eprintln!("DIST {}", d.join(" "));
}
