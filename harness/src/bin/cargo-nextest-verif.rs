//! The cargo-nextest CLI, built from /repo's working tree with the `verif-hooks` feature on
//! (same `main` as cargo-nextest/src/main.rs).
use cargo_nextest::{CargoNextestApp, OutputWriter};
use clap::Parser;

fn main() -> color_eyre::Result<()> {
    color_eyre::install()?;
    let _ = enable_ansi_support::enable_ansi_support();
    let cli_args: Vec<_> = std::env::args_os().map(|arg| arg.to_string_lossy().into_owned()).collect();
    let opts = CargoNextestApp::parse();
    let output = opts.init_output();
    match opts.exec(cli_args, output, &mut OutputWriter::default()) {
        Ok(code) => std::process::exit(code),
        Err(error) => {
            error.display_to_stderr(&output.stderr_styles());
            std::process::exit(error.process_exit_code())
        }
    }
}
