//! Scripted test binary / setup script for the end-to-end verification engine.  Dependency-free.
//!
//! Behaviour comes from the file named by $VERIF_SPEC; every process appends a ground-truth record to
//! $VERIF_LOG_DIR/<pid>.log (argv, env, cwd, pgid, stdin, timestamps on CLOCK_MONOTONIC, signals
//! received, bytes written).
#![allow(clippy::all)]
use std::io::Write;

extern "C" {
    fn signal(signum: i32, handler: usize) -> usize;
    fn fork() -> i32;
    fn _exit(code: i32) -> !;
    fn getpid() -> i32;
    fn getppid() -> i32;
    fn getpgid(pid: i32) -> i32;
    fn write(fd: i32, buf: *const u8, n: usize) -> isize;
    fn open(path: *const u8, flags: i32, mode: u32) -> i32;
    fn clock_gettime(clk: i32, ts: *mut [i64; 2]) -> i32;
    fn usleep(us: u32) -> i32;
    fn raise(sig: i32) -> i32;
    fn fstat(fd: i32, st: *mut [u64; 18]) -> i32;
    fn stat(path: *const u8, st: *mut [u64; 18]) -> i32;
    fn setsid() -> i32;
    fn fcntl(fd: i32, cmd: i32, ...) -> i32;
}

static mut LOG_FD: i32 = -1;
// per signal: 0 = default, 1 = log only (ignore), 2 = log then exit(code) after delay
static mut SIG_MODE: [i32; 65] = [0; 65];
static mut SIG_CODE: [i32; 65] = [0; 65];
static mut SIG_DELAY_MS: [u32; 65] = [0; 65];
// mode 3: on the signal, write this buffer to stdout, then exit(code)
static mut SIG_WBUF: *const u8 = std::ptr::null();
static mut SIG_WLEN: usize = 0;

fn now_ns() -> u128 {
    let mut ts = [0i64; 2];
    unsafe { clock_gettime(1, &mut ts) };
    ts[0] as u128 * 1_000_000_000 + ts[1] as u128
}

fn fmt_u128(mut v: u128, buf: &mut [u8; 48]) -> usize {
    let mut tmp = [0u8; 48];
    let mut n = 0;
    if v == 0 { tmp[0] = b'0'; n = 1; }
    while v > 0 { tmp[n] = b'0' + (v % 10) as u8; v /= 10; n += 1; }
    for i in 0..n { buf[i] = tmp[n - 1 - i]; }
    n
}

// async-signal-safe: "<tag> <ns> <num>\n"
fn raw_log(tag: &[u8], num: u128) {
    unsafe {
        if LOG_FD < 0 { return; }
        let mut line = [0u8; 128];
        let mut p = 0;
        for &b in tag { line[p] = b; p += 1; }
        line[p] = b' '; p += 1;
        let mut nb = [0u8; 48];
        let n = fmt_u128(now_ns(), &mut nb);
        for i in 0..n { line[p] = nb[i]; p += 1; }
        line[p] = b' '; p += 1;
        let n = fmt_u128(num, &mut nb);
        for i in 0..n { line[p] = nb[i]; p += 1; }
        line[p] = b'\n'; p += 1;
        write(LOG_FD, line.as_ptr(), p);
    }
}

extern "C" fn on_signal(sig: i32) {
    raw_log(b"sig", sig as u128);
    unsafe {
        let s = sig as usize;
        if s < 65 && SIG_MODE[s] == 3 {
            let mut off = 0usize;
            while off < SIG_WLEN { let n = write(1, SIG_WBUF.add(off), SIG_WLEN - off); if n <= 0 { break; } off += n as usize; }
            raw_log(b"end-exit", SIG_CODE[s] as u128);
            _exit(SIG_CODE[s]);
        }
        if s < 65 && SIG_MODE[s] == 2 {
            let d = SIG_DELAY_MS[s];
            if d > 0 { usleep(d * 1000); }
            raw_log(b"end-exit", SIG_CODE[s] as u128);
            _exit(SIG_CODE[s]);
        }
    }
}

fn hex(b: &[u8]) -> String {
    if b.is_empty() { return "-".into(); }
    let mut s = String::new();
    for x in b { s.push_str(&format!("{:02x}", x)); }
    s
}
fn unhex(s: &str) -> Vec<u8> {
    if s == "-" { return vec![]; }
    (0..s.len() / 2).map(|i| u8::from_str_radix(&s[2 * i..2 * i + 2], 16).unwrap_or(b'?')).collect()
}

fn log_line(s: &str) {
    unsafe {
        if LOG_FD >= 0 { let b = s.as_bytes(); write(LOG_FD, b.as_ptr(), b.len()); write(LOG_FD, b"\n".as_ptr(), 1); }
    }
}

fn open_log() {
    if let Ok(dir) = std::env::var("VERIF_LOG_DIR") {
        let path = format!("{}/{}.log\0", dir, unsafe { getpid() });
        // O_WRONLY|O_CREAT|O_APPEND
        unsafe { LOG_FD = open(path.as_ptr(), 0o1 | 0o100 | 0o2000, 0o644); }
    }
}

fn stdin_is_devnull() -> bool {
    let mut a = [0u64; 18];
    let mut b = [0u64; 18];
    unsafe {
        if fstat(0, &mut a) != 0 { return false; }
        if stat(b"/dev/null\0".as_ptr(), &mut b) != 0 { return false; }
    }
    // st_dev, st_ino and st_rdev (x86_64 layout: dev, ino, nlink, mode/uid/gid..., rdev at index 5)
    a[0] == b[0] && a[1] == b[1]
}

fn write_all(fd: i32, data: &[u8], chunk: usize, pace_us: u32) {
    let mut off = 0;
    while off < data.len() {
        let end = (off + chunk.max(1)).min(data.len());
        let mut p = off;
        while p < end {
            let n = unsafe { write(fd, data[p..].as_ptr(), end - p) };
            if n <= 0 { return; }
            p += n as usize;
        }
        off = end;
        if pace_us > 0 { unsafe { usleep(pace_us) }; }
    }
}

/// deterministic byte pattern: byte i of stream `tag` = (i * 131 + tag * 17 + i / 251) mod 256, optionally restricted
fn pattern(tag: u64, len: usize, mode: &str) -> Vec<u8> {
    (0..len).map(|i| {
        let v = ((i as u64).wrapping_mul(131).wrapping_add(tag.wrapping_mul(17)).wrapping_add(i as u64 / 251) % 256) as u8;
        match mode { "ascii" => b'a' + v % 26, "nonl" => if v == b'\n' { b'.' } else { v }, _ => v }
    }).collect()
}

fn run_actions(actions: &[String]) -> ! {
    for a in actions {
        let f: Vec<&str> = a.split(':').collect();
        match f[0] {
            "out" => { let b = unhex(f[1]); write_all(1, &b, b.len().max(1), 0); log_line(&format!("wrote out {}", b.len())); }
            "err" => { let b = unhex(f[1]); write_all(2, &b, b.len().max(1), 0); log_line(&format!("wrote err {}", b.len())); }
            // outn:<stream out|err>:<tag>:<len>:<chunk>:<pace us>:<mode>
            "outn" => {
                let fd = if f[1] == "err" { 2 } else { 1 };
                let tag: u64 = f[2].parse().unwrap_or(0); let len: usize = f[3].parse().unwrap_or(0);
                let chunk: usize = f[4].parse().unwrap_or(4096); let pace: u32 = f[5].parse().unwrap_or(0);
                let data = pattern(tag, len, f.get(6).copied().unwrap_or("bin"));
                write_all(fd, &data, chunk, pace);
                log_line(&format!("wrote {} {} tag={}", f[1], len, tag));
            }
            // pipesz:<bytes>: enlarge the stdout pipe (F_SETPIPE_SZ) so that a large last write does not block
            "pipesz" => { let n: i32 = f[1].parse().unwrap_or(65536); let rc = unsafe { fcntl(1, 1031, n) }; log_line(&format!("pipesz {} rc={}", n, rc)); }
            "sleep" => { let ms: u64 = f[1].parse().unwrap_or(0); let end = now_ns() + ms as u128 * 1_000_000; while now_ns() < end { unsafe { usleep(((end - now_ns()).min(50_000_000) / 1000) as u32) }; } }
            // work:<ms>: like sleep, but counts *running* time: a gap (the process was stopped) is logged and not counted
            "work" => {
                let ms: u64 = f[1].parse().unwrap_or(0); let mut acc: u128 = 0; let want = ms as u128 * 1_000_000;
                while acc < want {
                    let t0 = now_ns(); unsafe { usleep(2_000) }; let dt = now_ns() - t0;
                    if dt > 60_000_000 { raw_log(b"gap", dt / 1_000_000); acc += 2_000_000; } else { acc += dt; }
                }
            }
            "hang" => loop { let t0 = now_ns(); unsafe { usleep(20_000) }; let dt = now_ns() - t0; if dt > 80_000_000 { raw_log(b"gap", dt / 1_000_000); } },
            "exit" => { let c: i32 = f[1].parse().unwrap_or(1); raw_log(b"end-exit", c as u128); let _ = std::io::stdout().flush(); unsafe { _exit(c) } }
            "kill" => { let s: i32 = f[1].parse().unwrap_or(9); raw_log(b"end-signal", s as u128); unsafe { signal(s, 0); raise(s); usleep(100_000); _exit(99) } }
            "ignore" => { let s: usize = f[1].parse().unwrap_or(15); unsafe { SIG_MODE[s] = 1; signal(s as i32, on_signal as *const () as usize); } }
            // onsig:<sig>:<exit code>:<delay ms>
            "onsig" => { let s: usize = f[1].parse().unwrap_or(15); unsafe { SIG_MODE[s] = 2; SIG_CODE[s] = f[2].parse().unwrap_or(0); SIG_DELAY_MS[s] = f[3].parse().unwrap_or(0); signal(s as i32, on_signal as *const () as usize); } }
            // onsigw:<sig>:<exit code>:<tag>:<len>: on the signal write the pattern to stdout, then exit
            "onsigw" => {
                let s: usize = f[1].parse().unwrap_or(15); let tag: u64 = f[3].parse().unwrap_or(0); let len: usize = f[4].parse().unwrap_or(0);
                let data: &'static [u8] = Box::leak(pattern(tag, len, "bin").into_boxed_slice());
                unsafe { SIG_WBUF = data.as_ptr(); SIG_WLEN = data.len(); SIG_MODE[s] = 3; SIG_CODE[s] = f[2].parse().unwrap_or(0); signal(s as i32, on_signal as *const () as usize); }
            }
            // child:<hold ms>:<new session 0|1>: a descendant that keeps stdout/stderr open
            "child" => {
                let hold: u64 = f[1].parse().unwrap_or(0);
                let leave = f.get(2).copied() == Some("1");
                let pid = unsafe { fork() };
                if pid == 0 {
                    unsafe { LOG_FD = -1; }
                    open_log();
                    if leave { unsafe { setsid() }; }
                    log_line(&format!("child-start {} pid={} pgid={} ppid={}", now_ns(), unsafe { getpid() }, unsafe { getpgid(0) }, unsafe { getppid() }));
                    for s in [1usize, 2, 3, 15] { unsafe { SIG_MODE[s] = 0; } }
                    let end = now_ns() + hold as u128 * 1_000_000;
                    // gaps in the descendant's own clock (it was stopped) are logged, as in `hang`
                    while now_ns() < end { let t0 = now_ns(); unsafe { usleep(20_000) }; let dt = now_ns() - t0; if dt > 80_000_000 { raw_log(b"gap", dt / 1_000_000); } }
                    raw_log(b"end-exit", 0);
                    unsafe { _exit(0) }
                }
                log_line(&format!("forked {}", pid));
            }
            "env" => {
                if let Ok(p) = std::env::var("NEXTEST_ENV") {
                    if let Ok(mut fl) = std::fs::OpenOptions::new().append(true).create(true).open(p) { let _ = fl.write_all(&unhex(f[1])); let _ = fl.write_all(b"\n"); }
                }
            }
            _ => {}
        }
    }
    raw_log(b"end-exit", 0);
    unsafe { _exit(0) }
}

fn main() {
    open_log();
    let args: Vec<String> = std::env::args().collect();
    let exe = std::path::Path::new(&args[0]).file_name().map(|s| s.to_string_lossy().into_owned()).unwrap_or_default();
    let bin = match exe.rfind('-') { Some(i) if exe[i + 1..].len() == 16 && exe[i + 1..].chars().all(|c| c.is_ascii_hexdigit()) => exe[..i].to_string(), _ => exe.clone() };
    let spec = std::env::var("VERIF_SPEC").ok().and_then(|p| std::fs::read_to_string(p).ok()).unwrap_or_default();
    let lines: Vec<Vec<String>> = spec.lines().map(|l| l.split(' ').map(|s| s.to_string()).collect()).collect();
    // listing
    if args.iter().any(|a| a == "--list") {
        let ignored_only = args.iter().any(|a| a == "--ignored");
        let mut out = String::new();
        for l in &lines {
            if l[0] == "list" && l[1] == bin {
                let ign = l[3] == "1";
                if !ignored_only || ign { out.push_str(&String::from_utf8_lossy(&unhex(&l[2]))); out.push_str(": test\n"); }
            }
        }
        print!("{}", out);
        return;
    }
    // ground truth about this invocation
    let cwd = std::env::current_dir().map(|p| p.to_string_lossy().into_owned()).unwrap_or_default();
    let mut rec = format!("start {} pid={} pgid={} ppid={} stdin_null={} bin={} cwd={} argv=", now_ns(), unsafe { getpid() }, unsafe { getpgid(0) }, unsafe { getppid() }, stdin_is_devnull() as u8, bin, hex(cwd.as_bytes()));
    rec.push_str(&args.iter().skip(1).map(|a| hex(a.as_bytes())).collect::<Vec<_>>().join(","));
    log_line(&rec);
    let mut envs: Vec<(String, String)> = std::env::vars_os().map(|(k, v)| (k.to_string_lossy().into_owned(), v.to_string_lossy().into_owned())).collect();
    envs.sort();
    for (k, v) in envs {
        if k.starts_with("NEXTEST") || k.starts_with("CARGO_") || k.starts_with("__NEXTEST") || k.starts_with("VT_") || k == "OUT_DIR" { log_line(&format!("env {} {}", hex(k.as_bytes()), hex(v.as_bytes()))); }
    }
    // script mode: `vscript <name>`
    if bin == "vscript" {
        let name = args.get(1).cloned().unwrap_or_default();
        for l in &lines { if l[0] == "script" && l[1] == name { run_actions(&l[2..]); } }
        run_actions(&[]);
    }
    // test mode: --exact <name> --nocapture [--ignored] [extra…]
    let name = args.iter().position(|a| a == "--exact").and_then(|i| args.get(i + 1)).cloned().unwrap_or_default();
    let attempt = std::env::var("__NEXTEST_ATTEMPT").unwrap_or_else(|_| "1".into());
    let nh = hex(name.as_bytes());
    let mut chosen: Option<&Vec<String>> = None;
    for l in &lines {
        if l[0] == "act" && l[1] == bin && l[2] == nh && (l[3] == attempt || l[3] == "*") {
            if l[3] == attempt { chosen = Some(l); break; }
            if chosen.is_none() { chosen = Some(l); }
        }
    }
    match chosen {
        Some(l) => run_actions(&l[4..]),
        None => run_actions(&[]),
    }
}
