#!/usr/bin/env python3
"""usage: store_seed.py <base> <Cxx> <k> <new-id-suffix>   — copy a confirmed sub-agent change into seeded/<Cxx>-<suffix>/"""
import sys, os, shutil, json, glob, re
base, p, k, suf = sys.argv[1:5]
out = f"{base}/{p}-out"
d = f"/verif/seeded/{p}-{suf}"
os.makedirs(d, exist_ok=True)
shutil.copy(f"{out}/m{k}.patch", f"{d}/patch.diff")
demo = [f for f in sorted(glob.glob(f"{out}/m{k}-demo.*")) if f.endswith((".py", ".sh", ".rs"))][0]
shutil.copy(demo, f"{d}/{os.path.basename(demo)}")
meta_txt = open(f"{out}/m{k}-meta.txt").read()
open(f"{d}/m{k}-meta.txt", "w").write(meta_txt)
conf = [l for l in open(f"{base}/confirm-all.txt") if l.startswith(f"{p} m{k} ")]
head = subprocess_head = os.popen("git -C /repo log --oneline -1 HEAD").read().strip()
lines = [l.strip() for l in meta_txt.split("\n") if l.strip()]
meta = {"property": p, "id": f"{p}-{suf}", "what": " ".join(lines[:3])[:400],
        "needs_to_manifest": next((l for l in lines if re.search(r"needs|manifest", l, re.I)), "")[:400],
        "demo": ("python3 " if demo.endswith(".py") else "bash ") + os.path.basename(demo),
        "confirmed_by_me": f"tools/confirm_seed.sh in scratch worktree {base}/{p} at /repo {head}: patch applied, cargo build -p cargo-nextest, demo run (fails), pinned suite run (316 passed, 1 failed = baseline always-fail), patch reverted, rebuilt, demo run (passes): " + (conf[-1].strip() if conf else "?"),
        "origin": "independent sub-agent given only the property text (round 2+)"}
json.dump(meta, open(f"{d}/meta.json", "w"), indent=1)
print("stored", d)
