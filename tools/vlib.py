#!/usr/bin/env python3
"""Shared machinery of the per-property checks (see DESIGN.md §2.4, §3).

A check is: regenerate Gen tables from /repo -> lake build the property's theorem module and
the driver -> audit (forbidden tokens, `#print axioms` of every property theorem) -> rebuild the
Rust harness against /repo's working tree -> run the correspondence streams (corpus first) ->
compare implementation / model / monitors -> evidence -> verdict.
"""
import json, os, re, subprocess, sys, time, hashlib, shutil

ROOT = os.path.dirname(os.path.dirname(os.path.abspath(__file__)))
REPO = os.environ.get("VERIF_REPO", "/repo")
LEAN = os.path.join(ROOT, "lean")
HARNESS = os.path.join(ROOT, "harness")
BUILD = os.path.join(ROOT, ".build")
TARGET = os.path.join(BUILD, "target")
DRIVER = os.path.join(LEAN, ".lake", "build", "bin", "driver")
ALLOWED_AXIOMS = {"propext", "Classical.choice", "Quot.sound"}
FORBIDDEN = re.compile(r"\b(sorry|admit|native_decide|bv_decide|implemented_by)\b|^\s*axiom\s|\bunsafe\s|maxHeartbeats\s+0\b")

ENV = dict(os.environ)
ENV["CARGO_NET_OFFLINE"] = "true"
ENV.setdefault("CARGO_TERM_COLOR", "never")


def log(*a):
    print(*a, file=sys.stderr, flush=True)


def sh(cmd, cwd=None, timeout=None, input=None, env=None):
    p = subprocess.run(cmd, cwd=cwd, shell=isinstance(cmd, str), stdout=subprocess.PIPE,
                       stderr=subprocess.PIPE, timeout=timeout, input=input, env=env or ENV)
    return p.returncode, p.stdout.decode("utf-8", "replace"), p.stderr.decode("utf-8", "replace")


# ------------------------------------------------------------------ Lean side

def strip_comments(src):
    """Remove Lean block and line comments (nesting-aware enough for our sources)."""
    out = []
    i, depth, n = 0, 0, len(src)
    while i < n:
        if src.startswith("/-", i):
            depth += 1; i += 2; continue
        if depth and src.startswith("-/", i):
            depth -= 1; i += 2; continue
        if depth:
            if src[i] == "\n": out.append("\n")
            i += 1; continue
        if src.startswith("--", i):
            while i < n and src[i] != "\n": i += 1
            continue
        out.append(src[i]); i += 1
    return "".join(out)


def lean_files():
    for base, _, files in os.walk(LEAN):
        if ".lake" in base: continue
        for f in files:
            if f.endswith(".lean"):
                yield os.path.join(base, f)


def audit_forbidden():
    """Grep every Lean source (comments stripped) for constructs the trusted base excludes."""
    hits = []
    for f in lean_files():
        code = strip_comments(open(f).read())
        for ln, line in enumerate(code.split("\n"), 1):
            if FORBIDDEN.search(line):
                hits.append(f"{os.path.relpath(f, ROOT)}:{ln}: {line.strip()}")
    return hits


def theorem_names(thm_module):
    """Property theorems = every `theorem` declared in the property's Thm file (fully qualified)."""
    path = os.path.join(LEAN, thm_module.replace(".", "/") + ".lean")
    code = strip_comments(open(path).read())
    ns = []
    names = []
    for line in code.split("\n"):
        m = re.match(r"\s*namespace\s+(\S+)", line)
        if m: ns.append(m.group(1)); continue
        m = re.match(r"\s*end\s+(\S+)", line)
        if m and ns and ns[-1].split(".")[-1] == m.group(1).split(".")[-1]:
            ns.pop(); continue
        m = re.match(r"\s*(?:@\[[^\]]*\]\s*)?(?:protected\s+)?theorem\s+(\S+)", line)
        if m:
            names.append(".".join(ns + [m.group(1)]))
    return names


def lake_build(targets):
    t0 = time.time()
    rc, out, err = sh(["lake", "build"] + targets, cwd=LEAN, timeout=3600)
    return rc == 0, out + err, time.time() - t0


def print_axioms(thm_module, names, extra_modules=()):
    """Run `#print axioms` on every property theorem in a throw-away file; returns {name: [axioms]} and raw log."""
    os.makedirs(BUILD, exist_ok=True)
    path = os.path.join(BUILD, f"audit_{thm_module.split('.')[-1]}.lean")
    with open(path, "w") as f:
        f.write(f"import {thm_module}\n")
        for m in extra_modules: f.write(f"import {m}\n")
        for n in names:
            f.write(f"#print axioms {n}\n")
    rc, out, err = sh(["lake", "env", "lean", path], cwd=LEAN, timeout=1800)
    res = {}
    text = out + err
    for m in re.finditer(r"'([^']+)' depends on axioms: \[([^\]]*)\]", text):
        res[m.group(1)] = [a.strip() for a in m.group(2).replace("\n", " ").split(",") if a.strip()]
    for m in re.finditer(r"'([^']+)' does not depend on any axioms", text):
        res[m.group(1)] = []
    return rc, res, text


def leanchecker(mods):
    rc, out, err = sh(["lake", "env", "leanchecker"] + mods, cwd=LEAN, timeout=3600)
    return rc == 0, out + err


# ------------------------------------------------------------------ Rust side

def cargo_build(bins):
    """Rebuild the harness binaries against /repo's current working tree (hooks on)."""
    lock_src = os.path.join(REPO, "Cargo.lock")
    lock_dst = os.path.join(HARNESS, "Cargo.lock")
    if not os.path.exists(lock_dst) or os.path.getmtime(lock_src) > os.path.getmtime(lock_dst):
        shutil.copy(lock_src, lock_dst)
    t0 = time.time()
    cmd = ["cargo", "build", "--offline", "--quiet"]
    for b in bins:
        cmd += ["--bin", b]
    rc, out, err = sh(cmd, cwd=HARNESS, timeout=3600)
    return rc == 0, out + err, time.time() - t0


def run_bin(name, args, timeout=3600, input=None):
    path = os.path.join(TARGET, "debug", name)
    rc, out, err = sh([path] + [str(a) for a in args], timeout=timeout, input=input)
    return rc, out, err


def run_driver(requests):
    """Pipe request lines to the compiled Lean driver; one answer per line."""
    if not requests:
        return []
    data = ("\n".join(requests) + "\n").encode()
    rc, out, err = sh([DRIVER], input=data, timeout=3600)
    lines = out.split("\n")
    if lines and lines[-1] == "": lines.pop()
    if rc != 0 or len(lines) != len(requests):
        raise RuntimeError(f"driver failed rc={rc} answers={len(lines)} requests={len(requests)} err={err[:500]}")
    return lines


def parse_stream(out):
    """Harness stdout -> [(request, impl_output)]."""
    cases = []
    for line in out.split("\n"):
        if not line: continue
        if "\t" not in line:
            raise RuntimeError(f"malformed harness line: {line[:200]}")
        req, impl = line.split("\t", 1)
        cases.append((req, impl))
    return cases


def parse_dist(err):
    d = {}
    for line in err.split("\n"):
        if line.startswith("DIST "):
            for kv in line[5:].split():
                k, _, v = kv.rpartition("=")
                try: d[k] = d.get(k, 0) + int(v)
                except ValueError: pass
    return d


# ------------------------------------------------------------------ findings / verdict

def load_known():
    p = os.path.join(ROOT, "known-findings.json")
    if not os.path.exists(p): return []
    return json.load(open(p)).get("findings", [])


def write_replay(pid, seed, payload):
    d = os.path.join(BUILD, "replay")
    os.makedirs(d, exist_ok=True)
    h = hashlib.sha1(json.dumps(payload, sort_keys=True).encode()).hexdigest()[:8]
    path = os.path.join(d, f"{pid}-{seed}-{h}.json")
    json.dump(payload, open(path, "w"), indent=1)
    return path


def write_evidence(pid, tier, seed, coverage, assumptions, wall, violations):
    os.makedirs(os.path.join(ROOT, "evidence"), exist_ok=True)
    ev = {"property_id": pid, "tier": tier, "seed": seed, "level": "proof", "coverage": coverage,
          "assumptions": assumptions, "wall_s": round(wall, 2), "violations": violations}
    json.dump(ev, open(os.path.join(ROOT, "evidence", f"{pid}.json"), "w"), indent=1)
    return ev
