"""Shared handling of the scheduler stream (p_sched) for C02, C08, C14: parse, compare, monitors."""
import vlib
from props import common


def parse_req(req):
    f = req.split(" ")
    T = int(f[1])
    gmax = [] if f[2] == "." else [int(x) for x in f[2].split(",")]
    items = {}
    if f[3] != ".":
        for it in f[3].split(","):
            i, w, g = it.split(":")
            items[int(i)] = (int(w), None if g == "-" else int(g))
    ops = f[4].split(",")
    return T, gmax, items, ops


def run_sched(seed, tier, n_quick=1500, n_thorough=50000):
    n = n_quick if tier == "quick" else n_thorough
    r = common.run_streams([("p_sched", [seed, n])])
    items = [([b, args, idx], req, impl) for (b, args, idx, req, impl) in r.cases]
    model = vlib.run_driver([q for _, q, _ in items]) if items else []
    return r, items, model


def monitors(req, impl):
    """Property monitors on the implementation's own history. Returns dict kind -> (step, message)."""
    T, gmax, items, ops = parse_req(req)
    steps = impl.split(" ## ")
    tail = steps.pop()
    running = {}  # id -> (gslot, grslot)
    res = {}
    for k, (op, st) in enumerate(zip(ops, steps)):
        if op.startswith("C"):
            running.pop(int(op[1:]), None)
        started, cur = st.split("|")
        for s in (started.split(",") if started else []):
            i, sl = s.split("@"); gs, grs = sl.split("/"); i = int(i); gs = int(gs)
            w, g = items[i]
            # least free slot: the smallest number not held by a running future at this moment
            held = {v[0] for v in running.values()}
            least = next(x for x in range(len(held) + 1) if x not in held)
            if gs in held: res.setdefault("slot-unique", (k, f"global slot {gs} of test {i} is already held"))
            elif gs != least: res.setdefault("slot-least", (k, f"test {i} got global slot {gs}, least free is {least}"))
            if w >= 1 and T >= 1 and gs >= T: res.setdefault("slot-bound", (k, f"global slot {gs} >= test-threads {T}"))
            if g is not None:
                if grs == "-": res.setdefault("group-slot", (k, f"test {i} in group {g} has no group slot"))
                else:
                    grs = int(grs)
                    gheld = {v[1] for j, v in running.items() if items[j][1] == g}
                    gleast = next(x for x in range(len(gheld) + 1) if x not in gheld)
                    if grs in gheld: res.setdefault("slot-unique", (k, f"group slot {grs} of test {i} already held in group {g}"))
                    elif grs != gleast: res.setdefault("slot-least", (k, f"test {i} got group slot {grs}, least free is {gleast}"))
                    if w >= 1 and grs >= gmax[g]: res.setdefault("slot-bound", (k, f"group slot {grs} >= max-threads {gmax[g]}"))
            elif grs != "-": res.setdefault("group-slot", (k, f"test {i} without group has group slot {grs}"))
            running[i] = (gs, None if grs == "-" else int(grs))
        tot = sum(min(items[i][0], T) for i in running)
        if tot > T: res.setdefault("global-weight", (k, f"sum of weights {tot} > test-threads {T} with running {sorted(running)}"))
        if cur != f"cur={tot}": res.setdefault("weight-accounting", (k, f"current_global_weight {cur} but running futures weigh {tot}"))
        for g, m in enumerate(gmax):
            gt = sum(min(items[i][0], m) for i in running if items[i][1] == g)
            if gt > m: res.setdefault("group-weight", (k, f"group {g}: sum of weights {gt} > max-threads {m}"))
    # start order: futures are created in stream order except for members of a full group
    if "never_started=0" not in tail:
        uniform = all(len({items[i][0] for i in items if items[i][1] == g}) <= 1 for g in range(len(gmax)))
        res.setdefault("never-started-uniform" if uniform else "never-started-mixed", (len(steps), tail))
    if "panicked=1" in tail: res.setdefault("panic", (len(steps), tail))
    return res
