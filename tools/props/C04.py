"""C04 — the set of tests run is exactly the documented composition of all filters."""
import json
import vlib
from props import common

THM = "NextestModel.Thm.C04"
GEN = ["tables"]
GEN_GROUPS = ["mismatch"]
TRUSTED = ["model: Model/NameFilter, Model/Filter (hand-written; corresponded)",
           "aho-corasick modelled as 'some pattern is an infix'; filterset truth values enter as inputs (C05 covers them)"]
ASSUMPTIONS = ["libtest listing semantics as in C13", "partition stage behaviour is C13's subject; here only its position (last) matters"]


def nontrivial(req):
    f = req.split(" ")
    if f[0] == "pout":
        # at least two listed tests and some filtering feature in use
        return f[6].count(";") >= 1 and (f[4] != "N:." or f[5] != "0" or f[3] != "-" or f[2] == "d")
    return True


def run_p(seed, tier, replay=None):
    n = 2500 if tier == "quick" else 150000
    streams = [("p_filter", [seed, n])]
    if replay:
        rp = json.load(open(replay))
        if "stream" in rp: streams = [tuple(rp["stream"])]
    r = common.run_streams(streams)
    items = []
    nt = set()
    for (b, args, idx, req, impl) in r.cases:
        k = req.split(" ", 1)[0]
        if k in ("pout", "bin") or req.startswith("mon shortcut-sound"):
            items.append(([b, args, idx], req, impl))
            if nontrivial(req): nt.add(req)
    mism, monf = common.compare(items, None)
    violations = []
    for m in mism:
        violations.append({"what": f"filter composition differs from the specification: {m['req'][:160]} impl={m['impl'][:120]} spec={m['model'][:120]}",
                           "payload": {"stream": m["origin"][:2], "line_index": m["origin"][2], "request": m["req"], "impl": m["impl"], "model": m["model"],
                                       "explain": "pout <run-ignored d|o|a> <bound d|a> <partition> <pattern ops N:subs/s:sub/e:exact/k:skip/x:skip-exact, hex> <#filtersets> <plain listing name:exprbits:indefault;...> <ignored listing>  =>  name:ignored:verdict(M|i|s|e|p|d);...  |  bin <bound> <filterset trits> <default trit> => D|P|Me|Md"},
                           "kind": m["req"].split(" ")[0], "req": m["req"], "impl": m["impl"], "model": m["model"]})
    for m in monf:
        violations.append({"what": f"binary-level shortcut skipped a binary that has a selected test: {m['req'][:200]}",
                           "payload": {"stream": m["origin"][:2], "line_index": m["origin"][2], "request": m["req"], "impl": m["impl"]},
                           "kind": "mon", "req": m["req"], "impl": m["impl"]})
    samples = [f"{q}  =>  {i}" for (_, q, i) in items if q.startswith("pout")][:3] + [f"{q}  =>  {i}" for (_, q, i) in items if q.startswith("bin")][:2]
    return {
        "evaluations": len(items), "distinct_nontrivial": len(nt),
        "rule": "p_filter: random pattern-op sequences (skip-only / exact-only / skip-exact-only corners weighted up), 0-3 filtersets from a pool evaluated by the real code, default filter, bound, run-ignored mode, partition, listings of 0-8 names with infix relations; a case is non-trivial when >= 2 tests are listed and some filter feature is active; distinct = distinct request lines",
        "samples": samples, "traces": len(items), "dist": r.dist,
        "violations": violations, "broken": r.broken, "impl_failures": r.impl_failures,
    }

def run(seed, tier, replay=None):
    from props import mix, cliargs
    return mix.merge(run_p(seed, tier, replay), cliargs.check(seed, tier, 40, 600))

KNOWN_MATCHERS = {}
