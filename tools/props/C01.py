"""C01 — exit status is zero exactly when every selected test ultimately passed."""
import vlib
from props import common, mix, disp

THM = "NextestModel.Thm.C01"
GEN = ["tables"]
GEN_GROUPS = ["exit"]
TRUSTED = ["model: Model/Dispatcher (Stats, summarize, exitCode); exec_run's final match and the exit-code constants are regenerated from the source (Gen.Tables)",
           "reporting failures are outside the model (the property's own proviso)"]
ASSUMPTIONS = ["the real process exit status under real runs is exercised by the end-to-end engine when available; this check covers RunStats / summarize_final through the dispatcher hook and the regenerated exit table"]


def expected_final(req):
    """The property read on the history alone (independent of the model): from the events processed before any panic."""
    f = req.split(" ")
    initial = int(f[1]); evs = f[3].split(",")
    fin = sum(1 for e in evs if e.startswith("F:"))
    failed = sum(1 for e in evs if e.startswith("F:") and e.split(":")[2] not in ("P", "L"))
    sfailed = sum(1 for e in evs if e.startswith("sF:") and e.split(":")[3] not in ("P", "L"))
    if sfailed: return "Failed(SetupScript)"
    if failed: return f"Failed(Test({initial},{max(0, initial - fin)}))"
    if initial > fin: return f"Cancelled(Test({initial},{initial - fin}))"
    if fin == 0: return "NoTestsRun"
    return "Success"


def run_p(seed, tier, replay=None):
    r, items, model = disp.run_disp(seed, tier)
    violations = []
    nt = set()
    for (o, q, i), m in zip(items, model):
        steps, final = disp.split_steps(i)
        if final is None: continue
        if any(e.startswith("F:") for e in q.split(" ")[3].split(",")): nt.add(q)
        exp = expected_final(q)
        if final != exp:
            violations.append({"what": f"final run statistics {final} but the history says {exp} (events {q.split(' ')[3]}, {q.split(' ')[1]} selected)",
                               "payload": {"stream": o[:2], "line_index": o[2], "request": q, "impl_final": final, "spec_final": exp, "impl": i}, "kind": "final"})
            continue
        d = disp.first_diff(q, i, m, ["stats", "final"])
        if d:
            k, f, a, b, evs = d
            violations.append({"what": f"statistics after step {k} differ from the model: impl={a} model={b} (events {','.join(evs)})",
                               "payload": {"stream": o[:2], "line_index": o[2], "events": evs, "field": f, "impl": a, "model": b, "request": q}, "kind": "stats"})
    samples = [f"{q}  =>  FINAL {disp.split_steps(i)[1]}" for (_, q, i) in items[:4]]
    return {
        "evaluations": len(items), "distinct_nontrivial": len(nt),
        "rule": "p_disp event sequences (see C10); for every sequence that does not panic the implementation's RunStats::summarize_final is compared with the verdict computed from the history alone (failed scripts, failed final attempts, finished vs selected) and every intermediate RunStats with the model; the exit-status table is regenerated from the source and checked by theorem exit_table_matches_source; non-trivial = at least one test finishes",
        "samples": samples, "traces": len(items), "dist": r.dist,
        "violations": violations, "broken": r.broken, "impl_failures": r.impl_failures,
    }


def run(seed, tier, replay=None):
    from props import tim
    r = mix.merge(run_p(seed, tier, replay), mix.check([mix.mon_exit], seed, tier))
    # runs with timed-out tests (incl. tests that exit 0 when told to terminate), cancelled runs, runs ended by a signal: exit status
    r = mix.merge(r, tim.run_family("slow", seed, tier, 4, 30, kinds=("exit", "result")))
    r = mix.merge(r, tim.run_family("cancel", seed, tier, 7, 35, kinds=("exit",)))
    return mix.merge(r, tim.run_family("sig", seed, tier, 4, 30, kinds=("exit",)))

KNOWN_MATCHERS = {}
