"""C19 — archives round-trip faithfully, are created atomically, and extract safely."""
import binascii
import vlib
from props import common, mix, arc

THM = "NextestModel.Thm.C19"
GEN = []
TRUSTED = ["model: Model/Archive (append_path_recursive over an inductive tree, added_files de-duplication, ArchiveReader::entries path validation with std::path component semantics, PathMapper prefix rewrite, the temp-file-then-rename protocol)",
           "tar / zstd encoding, tar::Entry::unpack_in's own symlink and hard-link protection, atomicwrites' rename(2): third-party and kernel behaviour, observed end-to-end (hostile archives with canaries outside the destination; SIGKILL at random moments)"]
ASSUMPTIONS = ["PARTIAL: byte-for-byte fidelity and crash atomicity are observed (digests; kill points), not proved; symlinks to directories and dangling symlinks inside included trees are not generated; a missing include *below a regular file* is ENOTDIR and fails creation whatever on-missing says (creation stays all-or-nothing)"]


def unh(h):
    return "" if h in ("-", ".") else binascii.unhexlify(h).decode("utf-8", "replace")


def run_p(seed, tier, replay=None):
    n = 300 if tier == "quick" else 6000
    r = common.run_streams([("p_archive", ["aval", seed, n, vlib.BUILD + "/archive-tmp/aval"]), ("p_archive", ["host", seed, max(60, n // 3), vlib.BUILD + "/archive-tmp/host"]), ("p_archive", ["aarch", seed, n // 2, vlib.BUILD + "/archive-tmp/aarch"])])
    items = [([b, args, idx], req, impl) for (b, args, idx, req, impl) in r.cases]
    mism, monf = common.compare(items, None)
    violations = []
    for m in mism:
        q = m["req"]
        if q.startswith("aval "):
            path = unh(q.split(" ")[1])
            what = f"archive entry {path!r}: extractor says {m['impl'].split(' ')[0]} (on disk: {[unh(x) for x in m['impl'].split(' ')[1].split(',')]}), validation model says {m['model'].split(' ')[0]}"
            kind = "validate"
        else:
            gi = set(m["impl"].split(",")) if not m["impl"].startswith("extract-error") else set()
            gm = set(m["model"].split(","))
            what = f"archive members differ: extracted but not expected {sorted(unh(x) for x in gi - gm)[:6]}, expected but missing {sorted(unh(x) for x in gm - gi)[:6]}" + (f" ({unh(m['impl'].split(':', 1)[1])[:200]})" if not gi else "")
            kind = "members"
        violations.append({"what": what, "payload": {"stream": m["origin"][:2], "line_index": m["origin"][2], "request": q, "impl": m["impl"], "model": m["model"]}, "kind": kind})
    for m in monf:
        f = m["req"].split(" ")
        violations.append({"what": f"{f[1]} monitor ({' '.join(f[2:])[:300]}): {m['impl'][:300]}", "payload": {"stream": m["origin"][:2], "line_index": m["origin"][2], "request": m["req"], "impl": m["impl"]}, "kind": "mon-" + f[1]})
    reqs = [q for _, q, _ in items if not q.startswith("mon ")]
    nt = {q for q in reqs if q.startswith("aarch ") and q.count("D") >= 3} | {q for q in reqs if q.startswith("aval ") and len(q) > 30}
    samples = [f"{q[:300]}  =>  {i[:200]}" for (_, q, i) in items if q.startswith("aval ")][:3]
    return {
        "evaluations": len(items), "distinct_nontrivial": len(nt),
        "rule": "p_archive, in-process against the real archiver/unarchiver: (aval) one-entry archives whose entry name is written as raw header bytes — `..`, `.`, empty and absolute components, look-alike first components (targetx, target-evil, Target), non-UTF-8 bytes, trailing slashes, corrupted header checksums — verdict and landing place compared with the model, plus a monitor that nothing outside <dest>/target appeared and a canary file is untouched; (host) multi-entry hostile archives: symlink-then-file-through-it (relative, absolute, chained), hard links to an outside file then overwrite, directory entries with `..`, `target` itself as a symlink, random mixes — same monitor; (aarch) generated target trees (files 0-2 kB, fifos, symlinks, nesting up to 4, names with blanks and non-ASCII) with build-script out dirs, linked paths (existing and not), 0-3 archive.include rules (sub-paths, `./` forms, overlapping, depth 0-3/infinite/default, all on-missing policies, missing paths) archived by archive_to_file and extracted again: member set compared with the model, contents byte for byte, failed creations must leave the destination absent/unchanged with no stray temporary file",
        "samples": samples, "traces": len(items), "dist": r.dist,
        "violations": violations, "broken": r.broken, "impl_failures": r.impl_failures,
    }


def run(seed, tier, replay=None):
    return mix.merge(run_p(seed, tier, replay), arc.check(seed, tier))

KNOWN_MATCHERS = {}
