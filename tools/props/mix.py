"""End-to-end scenario family "mix": random workspaces of scripted tests (pass / fail / die by signal /
leak / slow / time out / produce output), retries with delays, thread counts, hostile test names and
environment, run by the real cargo-nextest built from /repo; with monitors that check properties
directly on the merged history (nextest's events + the processes' own records + JUnit + exit status).
Serves C01 C02 C03 C07 C08 C14 C15 C16 C17."""
import signal, os, random, re, sys, time, xml.etree.ElementTree as ET
import vlib, e2e, xxh64
from e2e import hx

SIGNAME = {6: "ABRT", 9: "KILL", 11: "SEGV", 15: "TERM", 2: "INT", 1: "HUP", 3: "QUIT"}
HOSTILE = ["plain", "mod::case", "with space", "quote'single", 'quote"double', "back\\slash", "dollar$HOME", "glob*?[x]", "-leading-dash", "--exact", "semi;colon|&",
           "unié日本", "tab\there", "hash#bang!", "eq=tilde~", "paren(s)", "angle<>&amp;"]
LEAK_TIMEOUT = 200
SLOW_PERIOD = 400
TERMINATE_AFTER = 2
GRACE = 300


def gen_attempt(rng, kind=None):
    kind = kind or rng.choice(["pass", "pass", "pass", "fail", "fail", "signal", "leakpass", "slowpass", "timeout", "output", "output"])
    a = {"kind": kind, "acts": [], "out": None, "err": None}
    def outputs():
        if rng.random() < 0.6:
            tag = rng.randrange(1000); ln = rng.choice([0, 1, 10, 100, 4095, 4096, 4097, 20000, 70000, 200000]); chunk = rng.choice([1, 7, 512, 4096, 65536]) if ln <= 5000 else rng.choice([4096, 65536, 1 << 20])
            mode = rng.choice(["bin", "ascii", "nonl"]); a["out"] = (tag, ln, mode); a["acts"].append(f"outn:out:{tag}:{ln}:{chunk}:0:{mode}")
        if rng.random() < 0.5:
            tag = rng.randrange(1000); ln = rng.choice([0, 3, 100, 5000, 66000]); mode = rng.choice(["bin", "ascii"])
            a["err"] = (tag, ln, mode); a["acts"].append(f"outn:err:{tag}:{ln}:65536:0:{mode}")
    if kind == "pass": outputs(); a["acts"].append("exit:0"); a["expect"] = "P"
    elif kind == "output": outputs(); a["acts"].append("exit:" + str(rng.choice([0, 0, 1]))); a["expect"] = "P" if a["acts"][-1] == "exit:0" else "F"
    elif kind == "fail": outputs(); c = rng.choice([1, 2, 101, 255, 129, 137, 70, 100]); a["acts"].append(f"exit:{c}"); a["expect"] = "F"; a["code"] = c
    elif kind == "signal": s = rng.choice([6, 9, 11, 15, 10, 12]); a["acts"].append(f"kill:{s}"); a["expect"] = f"FS{s}"
    elif kind == "leakpass": a["acts"] += [f"child:{LEAK_TIMEOUT * 4}", "exit:0"]; a["expect"] = "L"
    elif kind == "slowpass": a["acts"] += [f"sleep:{SLOW_PERIOD + 250}", "exit:0"]; a["expect"] = "P"; a["slow"] = True
    elif kind == "timeout": a["acts"] += ["sleep:5000", "exit:0"]; a["expect"] = "T"; a["slow"] = True
    return a


def fixed_attempt(kind, tag, expect, code=1):
    a = {"kind": kind, "acts": [f"outn:out:{tag}:300:4096:0:ascii", f"outn:err:{tag + 1}:200:4096:0:ascii", f"exit:{0 if expect == 'P' else code}"],
         "out": (tag, 300, "ascii"), "err": (tag + 1, 200, "ascii"), "expect": expect}
    return a


def gen_scenario(seed, k):
    rng = random.Random(seed * 1000 + k)
    sc = e2e.Scenario(f"mix{k}")
    if k == 0:
        # fixed scenario (corpus): retries with distinct output per attempt; one test fails every attempt, one is flaky, one passes
        tests = [
            {"bin": "t_one", "pkg": "alpha", "name": "always_fails", "ignored": False, "attempts": [fixed_attempt("fail", 10, "F"), fixed_attempt("fail", 20, "F"), fixed_attempt("fail", 30, "F")]},
            {"bin": "t_two", "pkg": "alpha", "name": "flaky", "ignored": False, "attempts": [fixed_attempt("fail", 40, "F"), fixed_attempt("pass", 50, "P"), fixed_attempt("pass", 60, "P")]},
            {"bin": "t_three", "pkg": "beta", "name": "passes", "ignored": False, "attempts": [fixed_attempt("pass", 70, "P")] * 3},
            # names that begin / end with white space (a custom harness may list them): the attempt's argv must carry them unchanged
            {"bin": "t_two", "pkg": "alpha", "name": " leading space", "ignored": False, "attempts": [fixed_attempt("pass", 80, "P")] * 3},
            {"bin": "t_one", "pkg": "alpha", "name": "\u3000wide and trailing ", "ignored": False, "attempts": [fixed_attempt("pass", 90, "P")] * 3},
        ]
        # output containing the two code points XML 1.0 excludes (U+FFFE, U+FFFF), C0 controls, an ANSI escape and invalid UTF-8
        hostile_out = ("before \ufffe middle \uffff \x01\x08\x0b \x1b[31mred\x1b[0m ]]> <&> end\n"
                       "astral \U0001f600 \U0001d49c \U00020000 \U0010fffd bmp \ue000 \ufffd \ud7ff \ufdd0 \u2028 ok\n").encode() + b"\xff\xfe tail\n" + (
                       # a panic message (nextest extracts it as the failure's message / description) carrying the two excluded code points
                       "thread 'main' panicked at src/hostile.rs:1:1:\nnonchar \ufffe and \uffff in the panic message\n").encode()
        # what the documented normalisations leave of it: lossy UTF-8 (U+FFFD per invalid byte), the ANSI escape sequence and the
        # characters XML 1.0 excludes removed; everything else — astral planes, private use, U+FFFD, U+D7FF, U+FDD0, U+2028 — kept
        sc_hostile_text = ("before  middle   red ]]> <&> end\n"
                           "astral \U0001f600 \U0001d49c \U00020000 \U0010fffd bmp \ue000 \ufffd \ud7ff \ufdd0 \u2028 ok\n\ufffd\ufffd tail\n"
                           "thread 'main' panicked at src/hostile.rs:1:1:\nnonchar  and  in the panic message\n")
        nonchar = {"kind": "fail", "acts": ["out:" + hx(hostile_out), "err:" + hx(hostile_out), "exit:1"], "out": None, "err": None, "expect": "F", "raw_out": hostile_out, "junit_text": sc_hostile_text}
        tests.append({"bin": "t_three", "pkg": "beta", "name": "hostile_output", "ignored": False, "attempts": [nonchar] * 3})
        for t in tests: sc.test(t["bin"], t["name"], {str(i + 1): a["acts"] for i, a in enumerate(t["attempts"])})
        sc.config = f'''[profile.default]
retries = 2
test-threads = 2
fail-fast = false
status-level = "all"
final-status-level = "all"
failure-output = "never"
success-output = "never"
[profile.default.junit]
path = "@JUNIT@"
store-success-output = false
store-failure-output = true
'''
        sc.cli = []
        sc.env = {"NEXTEST_RUN_ID": "evil-inherited"}
        sc.meta = {"tests": tests, "retries": 2, "threads": 2, "heavy": False, "group_m": None, "group_r": None, "grace": GRACE, "delay_ms": 0, "backoff": "fixed", "run_ignored": "default", "extra": False, "store_s": False, "store_f": True}
        return sc
    if k == 2:
        # fixed scenario (corpus): members of a test group need more threads (3) than the group allows (2), on 4 test threads,
        # dispatched first (priority); each must still count 3 against the run-wide limit: at most one single-thread test beside it
        w = lambda ms_: {"kind": "pass", "acts": [f"work:{ms_}", "exit:0"], "out": None, "err": None, "expect": "P"}
        tests = [{"bin": "t_two", "pkg": "alpha", "name": n, "ignored": False, "attempts": [w(450)]} for n in ("big_a", "big_b")]
        tests += [{"bin": "t_one", "pkg": "alpha", "name": f"small_{i}", "ignored": False, "attempts": [w(300)]} for i in range(6)]
        for t in tests: sc.test(t["bin"], t["name"], {"1": t["attempts"][0]["acts"]})
        sc.config = '''[test-groups]
g1 = { max-threads = 2 }
[profile.default]
retries = 0
test-threads = 4
fail-fast = false
status-level = "all"
final-status-level = "all"
failure-output = "never"
success-output = "never"
[profile.default.junit]
path = "@JUNIT@"
[[profile.default.overrides]]
filter = 'binary(t_two)'
test-group = 'g1'
threads-required = 3
priority = 50
'''
        sc.cli = []
        sc.env = {}
        sc.timeout_s = 60
        sc.meta = {"tests": tests, "retries": 0, "threads": 4, "heavy": False, "group_m": 2, "group_r": 3, "grace": GRACE, "delay_ms": 0, "backoff": "fixed", "run_ignored": "default", "extra": False, "store_s": False, "store_f": True}
        return sc
    if k == 3:
        # fixed scenario (corpus): one test needs more threads (4) than the run has (2); it runs alone, and the run-wide limit and the
        # slot numbering (0, 1) stay those of the 2 test threads for the single-thread tests around it
        w = lambda ms_: {"kind": "pass", "acts": [f"work:{ms_}", "exit:0"], "out": None, "err": None, "expect": "P"}
        tests = [{"bin": "t_three", "pkg": "beta", "name": "heavy", "ignored": False, "attempts": [w(300)]}]
        tests += [{"bin": "t_one", "pkg": "alpha", "name": f"light_{i}", "ignored": False, "attempts": [w(350)]} for i in range(6)]
        for t in tests: sc.test(t["bin"], t["name"], {"1": t["attempts"][0]["acts"]})
        sc.config = '''[profile.default]
retries = 0
test-threads = 2
fail-fast = false
status-level = "all"
final-status-level = "all"
failure-output = "never"
success-output = "never"
[profile.default.junit]
path = "@JUNIT@"
[[profile.default.overrides]]
filter = 'binary(t_three)'
threads-required = 4
'''
        sc.cli = []
        sc.env = {}
        sc.timeout_s = 60
        sc.meta = {"tests": tests, "retries": 0, "threads": 2, "heavy": True, "group_m": None, "group_r": None, "grace": GRACE, "delay_ms": 0, "backoff": "fixed", "run_ignored": "default", "extra": False, "store_s": False, "store_f": True}
        return sc
    if k == 4:
        # fixed scenario (corpus): nextest's terminal does not take output for 7 s while a failing test's 600 kB of output is being
        # displayed — the dispatcher is blocked in write(2) meanwhile; every selected test must still run once and finish
        w = lambda ms_, code: {"kind": "pass" if code == 0 else "fail", "acts": [f"work:{ms_}", f"exit:{code}"], "out": None, "err": None, "expect": "P" if code == 0 else "F"}
        noisy = {"kind": "fail", "acts": ["outn:out:77:600000:65536:0:ascii", "exit:1"], "out": (77, 600000, "ascii"), "err": None, "expect": "F"}
        tests = [{"bin": "t_one", "pkg": "alpha", "name": "a_noisy_fail", "ignored": False, "attempts": [noisy]}]
        tests += [{"bin": b, "pkg": pk, "name": n, "ignored": False, "attempts": [w(50, 0)]} for (b, pk, n) in (("t_one", "alpha", "b_quick"), ("t_two", "alpha", "c_quick"), ("t_three", "beta", "d_quick"), ("t_three", "beta", "e_quick"))]
        for t in tests: sc.test(t["bin"], t["name"], {"1": t["attempts"][0]["acts"]})
        sc.config = '''[profile.default]
retries = 0
test-threads = 2
fail-fast = false
status-level = "all"
final-status-level = "none"
failure-output = "immediate"
success-output = "never"
[profile.default.junit]
path = "@JUNIT@"
'''
        sc.cli = []
        sc.env = {}
        sc.timeout_s = 60
        sc.stall_stderr_s = 7
        sc.meta = {"tests": tests, "retries": 0, "threads": 2, "heavy": False, "group_m": None, "group_r": None, "grace": GRACE, "delay_ms": 0, "backoff": "fixed", "run_ignored": "default", "extra": False, "store_s": False, "store_f": True}
        return sc
    if k == 5:
        # fixed scenario (corpus): threads-required = "num-test-threads" must mean the EFFECTIVE thread count (-j 4 on the command
        # line), not the profile's (2): the heavy test runs alone
        w = lambda ms_: {"kind": "pass", "acts": [f"work:{ms_}", "exit:0"], "out": None, "err": None, "expect": "P"}
        tests = [{"bin": "t_three", "pkg": "beta", "name": "heavy", "ignored": False, "attempts": [w(350)]}]
        tests += [{"bin": "t_one", "pkg": "alpha", "name": f"light_{i}", "ignored": False, "attempts": [w(300)]} for i in range(6)]
        for t in tests: sc.test(t["bin"], t["name"], {"1": t["attempts"][0]["acts"]})
        sc.config = '''[profile.default]
retries = 0
test-threads = 2
fail-fast = false
status-level = "all"
final-status-level = "all"
failure-output = "never"
success-output = "never"
[profile.default.junit]
path = "@JUNIT@"
[[profile.default.overrides]]
filter = 'binary(t_three)'
threads-required = "num-test-threads"
priority = 50
'''
        sc.cli = ["-j", "4"]
        sc.env = {}
        sc.timeout_s = 60
        sc.meta = {"tests": tests, "retries": 0, "threads": 4, "heavy": True, "group_m": None, "group_r": None, "grace": GRACE, "delay_ms": 0, "backoff": "fixed", "run_ignored": "default", "extra": False, "store_s": False, "store_f": True}
        return sc
    if k == 6:
        # fixed scenario (corpus): the COMBINED capture mode (stdout and stderr into one pipe; selected by the libtest-json message
        # format): every byte of both streams, in the order written, per attempt
        def both(tag, n_out, n_err, code):
            return {"kind": "pass" if code == 0 else "fail", "acts": [f"outn:out:{tag}:{n_out}:4096:0:ascii", f"outn:err:{tag + 1}:{n_err}:4096:0:ascii", f"exit:{code}"],
                    "out": (tag, n_out, "ascii"), "err": (tag + 1, n_err, "ascii"), "expect": "P" if code == 0 else "F"}
        tests = [{"bin": "t_one", "pkg": "alpha", "name": "c_small", "ignored": False, "attempts": [both(200, 300, 200, 0)]},
                 {"bin": "t_one", "pkg": "alpha", "name": "c_big", "ignored": False, "attempts": [both(210, 150000, 70000, 0)]},
                 {"bin": "t_two", "pkg": "alpha", "name": "c_flaky", "ignored": False, "attempts": [both(220, 5000, 10, 1), both(230, 10, 5000, 0)]},
                 {"bin": "t_three", "pkg": "beta", "name": "c_fail", "ignored": False, "attempts": [both(240, 4096, 4097, 3), both(250, 1, 0, 3)]}]
        for t in tests: sc.test(t["bin"], t["name"], {str(i + 1): a["acts"] for i, a in enumerate(t["attempts"])})
        sc.config = '''[profile.default]
retries = 1
test-threads = 3
fail-fast = false
status-level = "all"
final-status-level = "all"
failure-output = "never"
success-output = "never"
[profile.default.junit]
path = "@JUNIT@"
store-success-output = false
store-failure-output = true
'''
        sc.cli = ["--message-format", "libtest-json"]
        sc.env = {"NEXTEST_EXPERIMENTAL_LIBTEST_JSON": "1"}
        sc.timeout_s = 60
        sc.meta = {"tests": tests, "retries": 1, "threads": 3, "heavy": False, "group_m": None, "group_r": None, "grace": GRACE, "delay_ms": 0, "backoff": "fixed", "run_ignored": "default", "extra": False, "store_s": False, "store_f": True, "combined": True}
        return sc
    if k == 7:
        # fixed scenario (corpus): a test group at least as wide as the run (max-threads 4, test-threads 2).  A long ungrouped test is
        # dispatched first (priority) and holds global slot 0; the group's members then run one at a time beside it: each must get
        # global slot 1 and GROUP slot 0 (the smallest free in its group), and the group's name
        w = lambda ms_: {"kind": "pass", "acts": [f"work:{ms_}", "exit:0"], "out": None, "err": None, "expect": "P"}
        tests = [{"bin": "t_one", "pkg": "alpha", "name": "long_ungrouped", "ignored": False, "attempts": [w(1100)]}]
        tests += [{"bin": "t_two", "pkg": "alpha", "name": f"grouped_{i}", "ignored": False, "attempts": [w(250)]} for i in range(3)]
        for t in tests: sc.test(t["bin"], t["name"], {"1": t["attempts"][0]["acts"]})
        sc.config = '''[test-groups]
g1 = { max-threads = 4 }
[profile.default]
retries = 0
test-threads = 2
fail-fast = false
status-level = "all"
final-status-level = "all"
failure-output = "never"
success-output = "never"
[profile.default.junit]
path = "@JUNIT@"
[[profile.default.overrides]]
filter = 'binary(t_one)'
priority = 50
[[profile.default.overrides]]
filter = 'binary(t_two)'
test-group = 'g1'
'''
        sc.cli = []
        sc.env = {}
        sc.timeout_s = 60
        sc.meta = {"tests": tests, "retries": 0, "threads": 2, "heavy": False, "group_m": 4, "group_r": None, "grace": GRACE, "delay_ms": 0, "backoff": "fixed", "run_ignored": "default", "extra": False, "store_s": False, "store_f": True}
        return sc
    if k == 14:
        # fixed scenario (corpus): information requests (SIGUSR1) arrive while a failing test is in the middle of writing its output
        # (stdout in 6 chunks 150 ms apart, then stderr): the snapshot taken for the answer must not take anything away from what
        # is captured, shown and stored for the attempt
        paced = {"kind": "fail", "acts": ["outn:out:140:3000:500:150000:ascii", "outn:err:141:700:100:20000:ascii", "exit:1"],
                 "out": (140, 3000, "ascii"), "err": (141, 700, "ascii"), "expect": "F"}
        tests = [{"bin": "t_one", "pkg": "alpha", "name": "paced_output", "ignored": False, "attempts": [paced]},
                 {"bin": "t_three", "pkg": "beta", "name": "passes", "ignored": False, "attempts": [fixed_attempt("pass", 30, "P")]}]
        # … and two tests ended by signals whose numbers differ between platforms (10 and 12: SIGUSR1 / SIGUSR2 on Linux, SIGBUS /
        # SIGSYS on macOS): the failure must be reported with the signal that ended the test
        for n in (10, 12):
            tests.append({"bin": "t_two", "pkg": "alpha", "name": f"dies_by_signal_{n}", "ignored": False,
                          "attempts": [{"kind": "signal", "acts": [f"kill:{n}"], "out": None, "err": None, "expect": f"FS{n}"}]})
        for t in tests: sc.test(t["bin"], t["name"], {"1": t["attempts"][0]["acts"]})
        sc.config = '''[profile.default]
retries = 0
test-threads = 2
fail-fast = false
status-level = "all"
final-status-level = "all"
failure-output = "never"
success-output = "never"
[profile.default.junit]
path = "@JUNIT@"
store-success-output = false
store-failure-output = true
'''
        trig = "TestStarted " + test_key(tests[0])
        sc.signals = [(trig, 1, 250, signal.SIGUSR1), (trig, 1, 550, signal.SIGUSR1), (trig, 1, 820, signal.SIGUSR1)]
        sc.cli = []
        sc.env = {}
        sc.timeout_s = 60
        sc.meta = {"tests": tests, "retries": 0, "threads": 2, "heavy": False, "group_m": None, "group_r": None, "grace": GRACE, "delay_ms": 0, "backoff": "fixed", "run_ignored": "default", "extra": False, "store_s": False, "store_f": True}
        return sc
    if k == 13:
        # fixed scenario (corpus): a grouped test that asks for `num-test-threads`: its weight is the run's width (4), not the
        # group's max-threads (2) — while it is alive nothing else runs
        w = lambda ms_: {"kind": "pass", "acts": [f"work:{ms_}", "exit:0"], "out": None, "err": None, "expect": "P"}
        tests = [{"bin": "t_two", "pkg": "alpha", "name": n, "ignored": False, "attempts": [w(400)]} for n in ("whole_run_a", "whole_run_b")]
        tests += [{"bin": "t_one", "pkg": "alpha", "name": f"small_{i}", "ignored": False, "attempts": [w(250)]} for i in range(6)]
        for t in tests: sc.test(t["bin"], t["name"], {"1": t["attempts"][0]["acts"]})
        sc.config = '''[test-groups]
g1 = { max-threads = 2 }
[profile.default]
retries = 0
test-threads = 4
fail-fast = false
status-level = "all"
final-status-level = "all"
failure-output = "never"
success-output = "never"
[profile.default.junit]
path = "@JUNIT@"
[[profile.default.overrides]]
filter = 'binary(t_two)'
test-group = 'g1'
threads-required = "num-test-threads"
priority = 50
'''
        sc.cli = []
        sc.env = {}
        sc.timeout_s = 60
        sc.meta = {"tests": tests, "retries": 0, "threads": 4, "heavy": False, "group_m": 2, "group_r": "all", "grace": GRACE, "delay_ms": 0, "backoff": "fixed", "run_ignored": "default", "extra": False, "store_s": False, "store_f": True}
        return sc
    if k == 12:
        # fixed scenario (corpus): `--retries 0` on the command line against `retries = 2` in the profile and 3 in an override: the
        # command line wins, a failing test is run exactly once
        # (the two failing tests exit with codes nextest uses itself — 70: the double-spawn launcher's error, 100: a failed run —: a test
        #  that ends this way on its own has still simply failed)
        tests = [{"bin": "t_one", "pkg": "alpha", "name": "fails_once_only", "ignored": False, "attempts": [fixed_attempt("fail", 10, "F", code=70)] * 4},
                 {"bin": "t_two", "pkg": "alpha", "name": "override_fails", "ignored": False, "attempts": [fixed_attempt("fail", 20, "F", code=100)] * 4},
                 {"bin": "t_three", "pkg": "beta", "name": "passes", "ignored": False, "attempts": [fixed_attempt("pass", 30, "P")] * 4}]
        for t in tests: sc.test(t["bin"], t["name"], {str(i + 1): a["acts"] for i, a in enumerate(t["attempts"])})
        sc.config = '''[profile.default]
retries = 2
test-threads = 2
fail-fast = false
status-level = "all"
final-status-level = "all"
failure-output = "never"
success-output = "never"
[profile.default.junit]
path = "@JUNIT@"
store-success-output = false
store-failure-output = true
[[profile.default.overrides]]
filter = 'binary(t_two)'
retries = 3
'''
        sc.cli = ["--retries", "0"]
        sc.env = {}
        sc.timeout_s = 60
        sc.meta = {"tests": tests, "retries": 0, "threads": 2, "heavy": False, "group_m": None, "group_r": None, "grace": GRACE, "delay_ms": 0, "backoff": "fixed", "run_ignored": "default", "extra": False, "store_s": False, "store_f": True}
        return sc
    if k == 11:
        # fixed scenario (corpus): nothing is selected (every listed test is ignored and --run-ignored is the default): every listed
        # test must still be reported skipped, and the run ends with "no tests to run"
        w = lambda ms_: {"kind": "pass", "acts": [f"work:{ms_}", "exit:0"], "out": None, "err": None, "expect": "P"}
        tests = [{"bin": "t_one", "pkg": "alpha", "name": "ign_a", "ignored": True, "attempts": [w(10)]},
                 {"bin": "t_one", "pkg": "alpha", "name": "ign_b", "ignored": True, "attempts": [w(10)]},
                 {"bin": "t_two", "pkg": "alpha", "name": "ign_c", "ignored": True, "attempts": [w(10)]}]
        for t in tests: sc.test(t["bin"], t["name"], {"1": t["attempts"][0]["acts"]}, ignored=t["ignored"])
        sc.config = '''[profile.default]
retries = 0
test-threads = 2
fail-fast = false
status-level = "all"
final-status-level = "all"
failure-output = "never"
success-output = "never"
[profile.default.junit]
path = "@JUNIT@"
'''
        sc.cli = []
        sc.env = {}
        sc.timeout_s = 60
        sc.meta = {"tests": tests, "retries": 0, "threads": 2, "heavy": False, "group_m": None, "group_r": None, "grace": GRACE, "delay_ms": 0, "backoff": "fixed", "run_ignored": "default", "extra": False, "store_s": False, "store_f": True}
        return sc
    if k == 10:
        # fixed scenario (corpus): an ignored (hence skipped) test that sorts ahead of the runnable ones on 3 test threads: a skipped
        # test holds no slot, so the two tests that run get global slots 0 and 1
        w = lambda ms_: {"kind": "pass", "acts": [f"work:{ms_}", "exit:0"], "out": None, "err": None, "expect": "P"}
        tests = [{"bin": "t_one", "pkg": "alpha", "name": "a_skipped", "ignored": True, "attempts": [w(10)]},
                 {"bin": "t_one", "pkg": "alpha", "name": "b_first", "ignored": False, "attempts": [w(300)]},
                 {"bin": "t_one", "pkg": "alpha", "name": "c_second", "ignored": False, "attempts": [w(300)]}]
        for t in tests: sc.test(t["bin"], t["name"], {"1": t["attempts"][0]["acts"]}, ignored=t["ignored"])
        sc.config = '''[profile.default]
retries = 0
test-threads = 3
fail-fast = false
status-level = "all"
final-status-level = "all"
failure-output = "never"
success-output = "never"
[profile.default.junit]
path = "@JUNIT@"
'''
        sc.cli = []
        sc.env = {}
        sc.timeout_s = 60
        sc.meta = {"tests": tests, "retries": 0, "threads": 3, "heavy": False, "group_m": None, "group_r": None, "grace": GRACE, "delay_ms": 0, "backoff": "fixed", "run_ignored": "default", "extra": False, "store_s": False, "store_f": True}
        return sc
    if k in (8, 9):
        # fixed scenarios (corpus): --no-capture forces serial execution whatever test-threads says (4 here) — also together with the
        # libtest-json message format (which selects its own capture mode when output is captured)
        w = lambda ms_: {"kind": "pass", "acts": [f"work:{ms_}", "exit:0"], "out": None, "err": None, "expect": "P"}
        tests = [{"bin": b, "pkg": pk, "name": f"nc_{i}", "ignored": False, "attempts": [w(200)]} for i, (b, pk) in enumerate([("t_one", "alpha"), ("t_one", "alpha"), ("t_two", "alpha"), ("t_three", "beta")])]
        for t in tests: sc.test(t["bin"], t["name"], {"1": t["attempts"][0]["acts"]})
        sc.config = '''[profile.default]
retries = 0
test-threads = 4
fail-fast = false
status-level = "all"
final-status-level = "all"
[profile.default.junit]
path = "@JUNIT@"
'''
        sc.cli = ["--no-capture"] + (["--message-format", "libtest-json"] if k == 9 else [])
        sc.env = {"NEXTEST_EXPERIMENTAL_LIBTEST_JSON": "1"} if k == 9 else {}
        sc.timeout_s = 60
        sc.meta = {"tests": tests, "retries": 0, "threads": 1, "heavy": False, "group_m": None, "group_r": None, "grace": GRACE, "delay_ms": 0, "backoff": "fixed", "run_ignored": "default", "extra": False, "store_s": False, "store_f": True, "no_capture": True}
        return sc
    retries = rng.choice([0, 0, 1, 2])
    threads = rng.choice([1, 2, 4])
    delay_ms = rng.choice([0, 0, 150]) if retries else 0
    backoff = rng.choice(["fixed", "exponential"]) if delay_ms else "fixed"
    store_s, store_f = rng.random() < 0.5, rng.random() < 0.7
    names = rng.sample(HOSTILE, rng.randrange(3, 8))
    tests = []
    for n in names:
        b = rng.choice(["t_one", "t_two", "t_three"])
        ignored = rng.random() < 0.15
        atts = [gen_attempt(rng) for _ in range(3)]
        # make flaky tests likely when retries > 0
        if retries and rng.random() < 0.4: atts[0] = gen_attempt(rng, "fail"); atts[retries] = gen_attempt(rng, "pass")
        tests.append({"bin": b, "pkg": "beta" if b == "t_three" else "alpha", "name": n, "ignored": ignored, "attempts": atts})
        sc.test(b, n, {str(i + 1): a["acts"] for i, a in enumerate(atts)}, ignored=ignored)
    run_ignored = rng.choice(["default", "default", "all"])
    extra = rng.random() < 0.4
    # --retries on the command line replaces every policy (delays included)
    cli_retries = rng.choice([None, None, None, 0, 1]) if True else None
    # threads-required = "num-test-threads" for one binary, with -j on the command line different from the profile
    heavy = rng.random() < 0.3
    cli_threads = rng.choice([None, threads + 2]) if heavy else None
    grace = rng.choice([GRACE, GRACE, 0])
    group_m = rng.choice([None, None, 1, 2, 8])
    if k == 1: group_m, threads = 8, 2       # corpus: a group wider than the run
    # every member of the group needs `group_r` threads (uniform within the group); may exceed the group's max-threads
    group_r = rng.choice([None, None, 2, 3]) if group_m else None
    pol = f'retries = {retries}' if not delay_ms else (f'retries = {{ backoff = "fixed", count = {retries}, delay = "{delay_ms}ms" }}' if backoff == "fixed" else f'retries = {{ backoff = "exponential", count = {retries}, delay = "{delay_ms}ms" }}')
    sc.config = (f"[test-groups]\ng1 = {{ max-threads = {group_m} }}\n" if group_m else "") + f'''[profile.default]
{pol}
test-threads = {threads}
fail-fast = false
leak-timeout = "{LEAK_TIMEOUT}ms"
slow-timeout = {{ period = "{SLOW_PERIOD}ms", terminate-after = {TERMINATE_AFTER}, grace-period = "{grace}ms" }}
status-level = "all"
final-status-level = "all"
failure-output = "never"
success-output = "never"
[profile.default.junit]
path = "@JUNIT@"
store-success-output = {str(store_s).lower()}
store-failure-output = {str(store_f).lower()}
''' + ('''
[[profile.default.overrides]]
filter = 'binary(t_two)'
run-extra-args = ["--extra", "arg with space"]
''' if extra else "") + ('''
[[profile.default.overrides]]
filter = 'binary(t_three)'
threads-required = "num-test-threads"
''' if heavy else "") + ('''
[[profile.default.overrides]]
filter = 'binary(t_two)'
test-group = 'g1'
''' + (f"threads-required = {group_r}\n" if group_r else "") if group_m else "")
    sc.cli = ["--run-ignored", run_ignored] + (["--retries", str(cli_retries)] if cli_retries is not None else []) + (["-j", str(cli_threads)] if cli_threads else [])
    if cli_retries is not None:
        retries_eff, delay_ms = cli_retries, 0
    else:
        retries_eff = retries
    if cli_threads: threads = cli_threads
    sc.env = {"NEXTEST_RUN_ID": "evil-inherited", "NEXTEST_EXECUTION_MODE": "evil", "CARGO_PKG_NAME": "evil", "VT_MARK": "x"}
    sc.timeout_s = 90
    sc.meta = {"tests": tests, "retries": retries_eff, "threads": threads, "heavy": heavy, "grace": grace, "delay_ms": delay_ms, "backoff": backoff, "run_ignored": run_ignored, "extra": extra,
               "store_s": store_s, "store_f": store_f, "group_m": group_m, "group_r": group_r}
    return sc


def expected_attempts(t, total):
    """un-cancelled, no-fail-fast: attempts until the first pass (P or L), else all"""
    out = []
    for i in range(total):
        a = t["attempts"][min(i, len(t["attempts"]) - 1)]
        out.append(a)
        if a["expect"] in ("P", "L"): break
    return out


def selected(sc, t):
    return sc.meta["run_ignored"] == "all" or not t["ignored"]


def binary_id(t):
    return f"{t['pkg']}::{t['bin']}"


def test_key(t):
    return f"{hx(binary_id(t))}/{hx(t['name'])}"


def run_family(seed, tier, n_quick=9, n_thorough=60):
    ok, err = e2e.build_workspace()
    broken = []
    if not ok: broken.append("scripted workspace does not build: " + err[-300:])
    okb, blog, _ = vlib.cargo_build(["cargo-nextest-verif"])
    if not okb: broken.append("cargo-nextest (hooked) does not build from the working tree: " + " | ".join([l for l in blog.split("\n") if l.startswith("error")][:4]))
    if broken: return [], broken
    n = n_quick if tier == "quick" else n_thorough
    scs = [gen_scenario(seed, k) for k in range(n)]
    res = e2e.run_many(scs, os.path.join(vlib.BUILD, "e2e-run", f"mix-{seed}"), jobs=6)
    for sc, r in res:
        if getattr(r, "error", None): broken.append(f"scenario {sc.name}: {r.error}")
    return res, broken


# ----------------------------------------------------------------------------------------- history helpers

def finished_statuses(r):
    """{test key: [status strings]} from TestFinished events"""
    out = {}
    for (ns, kind, data) in r.events:
        if kind == "TestFinished":
            key = data.split(" ")[0]
            m = re.search(r"\[(.*)\]", data)
            out.setdefault(key, []).append(m.group(1).split(" ") if m and m.group(1) else [])
    return out


def procs_by_test(r):
    """{(bin, name): [proc,...] sorted by attempt}"""
    out = {}
    for p in r.procs:
        if p.get("start") is None or p.get("child") or p.get("bin") == "vscript": continue
        argv = p.get("argv", [])
        if "--exact" not in argv: continue
        name = argv[argv.index("--exact") + 1] if argv.index("--exact") + 1 < len(argv) else ""
        out.setdefault((p["bin"], name), []).append(p)
    for v in out.values(): v.sort(key=lambda p: p["start"])
    return out


def viol(sc, r, kind, what, extra=None):
    pl = {"scenario": sc.name, "workdir": getattr(r, "workdir", None), "what": what, "spec": sc.spec_text(), "config": sc.config, "cli": sc.cli, "exit": getattr(r, "exit", None)}
    if extra: pl.update(extra)
    return {"what": f"[{sc.name}] {what}", "payload": pl, "kind": kind}


# ----------------------------------------------------------------------------------------- monitors

def mon_exit(sc, r):
    """C01: exit status vs the processes' own records"""
    out = []
    total = sc.meta["retries"] + 1
    sel = [t for t in sc.meta["tests"] if selected(sc, t)]
    if r.hung: return [viol(sc, r, "hang", "nextest did not exit")]
    all_pass = all(expected_attempts(t, total)[-1]["expect"] in ("P", "L") for t in sel)
    want = 4 if not sel else (0 if all_pass else 100)
    if r.exit != want:
        out.append(viol(sc, r, "exit", f"exit status {r.exit}, the scripted outcomes demand {want} (selected {len(sel)}, all passed ultimately: {all_pass})"))
    return out


def mon_once(sc, r):
    """C02: started once / finished once / attempts numbered consecutively, one process each, no overlap; unselected never spawned"""
    out = []
    total = sc.meta["retries"] + 1
    started, finished, skipped = {}, {}, {}
    for (ns, kind, data) in r.events:
        key = data.split(" ")[0]
        if kind == "TestStarted": started[key] = started.get(key, 0) + 1
        if kind == "TestFinished":
            finished[key] = finished.get(key, 0) + 1
            if started.get(key, 0) == 0: out.append(viol(sc, r, "finished-before-started", f"{key} finished without having started"))
        if kind == "TestSkipped": skipped[key] = skipped.get(key, 0) + 1
    pbt = procs_by_test(r)
    for t in sc.meta["tests"]:
        key = test_key(t); procs = pbt.get((t["bin"], t["name"]), [])
        if selected(sc, t):
            exp = expected_attempts(t, total)
            if started.get(key, 0) != 1 or finished.get(key, 0) != 1:
                out.append(viol(sc, r, "once", f"selected test {t['name']!r}: started {started.get(key, 0)}x finished {finished.get(key, 0)}x in an un-cancelled run"))
            if skipped.get(key, 0): out.append(viol(sc, r, "once", f"selected test {t['name']!r} reported skipped"))
            atts = [p["env"].get("__NEXTEST_ATTEMPT") for p in procs]
            if atts != [str(i + 1) for i in range(len(exp))]:
                out.append(viol(sc, r, "attempts", f"test {t['name']!r}: process invocations carry attempts {atts}, expected 1..{len(exp)}"))
            for a, b in zip(procs, procs[1:]):
                if a.get("end") and b["start"] < a["end"][1]:
                    out.append(viol(sc, r, "overlap", f"test {t['name']!r}: attempt started before the previous one ended"))
        else:
            if procs: out.append(viol(sc, r, "unselected-ran", f"unselected test {t['name']!r} was spawned {len(procs)}x"))
            if skipped.get(key, 0) != 1: out.append(viol(sc, r, "unselected-skip", f"unselected test {t['name']!r} reported skipped {skipped.get(key, 0)}x"))
    return out


def mon_history(sc, r):
    """C02 on any history, cancelled or not (needs only the event log and the processes' own records): every test is started at most
    once and finished at most once; the attempts a TestFinished reports are numbered 1..n consecutively and n is exactly the number of
    processes spawned for that test, which carry __NEXTEST_ATTEMPT 1..n and do not overlap; no process without a TestStarted"""
    out = []
    started, fin = {}, finished_statuses(r)
    for (ns, kind, data) in r.events:
        if kind == "TestStarted": started[data.split(" ")[0]] = started.get(data.split(" ")[0], 0) + 1
    pbt = {}
    for (b, n), procs in procs_by_test(r).items():
        pbt.setdefault((b, n), procs)
    def unkey(key):
        bid, nm = key.split("/")
        dec = lambda x: "" if x == "-" else bytes.fromhex(x).decode("utf-8", "replace")
        return dec(bid).split("::")[-1], dec(nm)
    for key, n in started.items():
        if n != 1: out.append(viol(sc, r, "history", f"test {unkey(key)[1]!r} started {n} times"))
    for key, lst in fin.items():
        b, nm = unkey(key)
        if len(lst) != 1: out.append(viol(sc, r, "history", f"test {nm!r} finished {len(lst)} times")); continue
        if not started.get(key): out.append(viol(sc, r, "history", f"test {nm!r} finished without having started"))
        nums = [s.split(":")[0] for s in lst[0]]
        tot = nums[0].split("/")[1] if nums and "/" in nums[0] else "?"
        if nums != [f"{i + 1}/{tot}" for i in range(len(nums))]:
            out.append(viol(sc, r, "attempts", f"test {nm!r}: the final report lists attempts {nums}; attempts are numbered consecutively from 1"))
        procs = pbt.get((b, nm), [])
        if len(procs) != len(nums):
            out.append(viol(sc, r, "attempts", f"test {nm!r}: the final report lists {len(nums)} attempts {nums} but {len(procs)} process(es) were spawned for it (attempt numbers seen by the processes: {[p['env'].get('__NEXTEST_ATTEMPT') for p in procs]})"))
    for (b, nm), procs in pbt.items():
        atts = [p["env"].get("__NEXTEST_ATTEMPT") for p in procs]
        if atts != [str(i + 1) for i in range(len(atts))]:
            out.append(viol(sc, r, "attempts", f"test {nm!r}: process invocations carry attempt numbers {atts}, expected 1..{len(atts)}"))
        for a, c in zip(procs, procs[1:]):
            if a.get("end") and c["start"] < a["end"][1]: out.append(viol(sc, r, "overlap", f"test {nm!r}: an attempt started before the previous one ended"))
        if not any(unkey(k) == (b, nm) for k in started):
            out.append(viol(sc, r, "history", f"a process ran for test {nm!r} of {b} which was never reported started"))
    return out


def mon_attempt_model(sc, r):
    """C07 / C02: the attempt loop model (Model/Attempts = run_test_instance's loop) as an acceptor of the observed history: for every
    selected test, the attempts spawned (as numbered by the processes themselves), the statuses in its TestFinished and the delays
    announced with TestAttemptFailedWillRetry must be what the model computes from the scripted per-attempt outcomes and the policy."""
    out = []
    total = sc.meta["retries"] + 1
    pbt = procs_by_test(r); fin = finished_statuses(r)
    reqs = []
    for t in sc.meta["tests"]:
        if not selected(sc, t): continue
        outs = []
        for i in range(total):
            e = t["attempts"][min(i, len(t["attempts"]) - 1)]["expect"]
            outs.append(e)
        d = sc.meta["delay_ms"] * 1000000
        kind = "e" if (sc.meta["backoff"] == "exponential" and d) else "f"
        reqs.append((t, f"attempts {kind} {total - 1} {d} - {','.join(outs)} 1 -"))
    if not reqs: return out
    try: answers = vlib.run_driver([q for _, q in reqs])
    except RuntimeError as e: return [viol(sc, r, "protocol", f"model driver failed: {e}")]
    for (t, q), ans in zip(reqs, answers):
        if ans in ("bad-op", "panic"): out.append(viol(sc, r, "attempt-model", f"the attempt-loop model answers {ans} on {q}")); continue
        wsp, wfin, wds = ans.split(" ")
        key = test_key(t); procs = pbt.get((t["bin"], t["name"]), [])
        gsp = ",".join(p["env"].get("__NEXTEST_ATTEMPT", "?") for p in procs) or "."
        sts = fin.get(key, [[]])[0]
        gfin = ",".join(re.sub(r"FSUnixSignal\((\d+)\)", r"FS\1", s.split(":")[1]) for s in sts) or "-"
        gds = []
        for (ns, kind, data) in r.events:
            if kind == "TestAttemptFailedWillRetry" and data.split(" ")[0] == key:
                m = re.search(r"next_delay=(\d+)ms", data)
                if m: gds.append(str(int(m.group(1)) * 1000000))
        gds = ",".join(gds) or "."
        if (gsp, gfin, gds) != (wsp, wfin, wds):
            out.append(viol(sc, r, "attempt-model", f"test {t['name']!r}: attempts spawned {gsp}, final statuses {gfin}, announced delays {gds} ns; the attempt loop on the scripted outcomes gives {wsp} / {wfin} / {wds}  [{q}]"))
    return out


LINUX_SIGNAMES = {1: "HUP", 2: "INT", 3: "QUIT", 4: "ILL", 5: "TRAP", 6: "ABRT", 7: "BUS", 8: "FPE", 9: "KILL", 10: "USR1", 11: "SEGV", 12: "USR2", 13: "PIPE",
                  14: "ALRM", 15: "TERM", 16: "STKFLT", 17: "CHLD", 18: "CONT", 19: "STOP", 20: "TSTP", 21: "TTIN", 22: "TTOU", 23: "URG", 24: "XCPU", 25: "XFSZ",
                  26: "VTALRM", 27: "PROF", 28: "WINCH", 29: "IO", 30: "PWR", 31: "SYS"}

STATUS_WORD = {"P": "PASS", "L": "LEAK", "F": "FAIL", "Fl": "FAIL + LEAK", "X": "XFAIL", "T": "TIMEOUT"}


def mon_results(sc, r):
    """C03: per-attempt result vs what the process did; flaky iff passed after failures"""
    out = []
    total = sc.meta["retries"] + 1
    fin = finished_statuses(r)
    for t in sc.meta["tests"]:
        if not selected(sc, t): continue
        sts = fin.get(test_key(t), [[]])[0]
        exp = expected_attempts(t, total)
        got = [s.split(":")[1] for s in sts]
        want = []
        for a in exp:
            e = a["expect"]
            want.append(e)
        # signals are rendered as FSUnixSignal(n)
        gotn = [re.sub(r"FSUnixSignal\((\d+)\)", r"FS\1", g) for g in got]
        if gotn != want:
            out.append(viol(sc, r, "result", f"test {t['name']!r}: attempts reported {gotn}, the processes did {want} ({[a['kind'] for a in exp]})"))
        # the status lines: a signal is shown under its own (Linux) name, or as its number
        signums = {int(w[2:]) for w in want if w.startswith("FS") and w[2:].isdigit()}
        if signums:
            for line in r.stderr.split("\n"):
                mm = re.match(r"\s+(?:TRY \d+ )?(SIG[A-Z0-9]+|ABORT SIG \d+|SIG \d+)\s+\[[^\]]*\]\s+(.*)$", line)
                if not mm or mm.group(2).rstrip("\r") != f"{binary_id(t)} {t['name']}": continue
                ok = {f"SIG{LINUX_SIGNAMES[n]}" for n in signums if n in LINUX_SIGNAMES} | {f"ABORT SIG {n}" for n in signums} | {f"SIG {n}" for n in signums}
                if mm.group(1) not in ok:
                    out.append(viol(sc, r, "result", f"test {t['name']!r} was ended by signal {sorted(signums)} and its status line says {mm.group(1)!r} (expected one of {sorted(ok)}): a failure is reported with the signal that ended the test"))
        # … and every other outcome under its own word (tests with a single attempt: the line shows that attempt's result)
        if len(gotn) == 1 and gotn == want and gotn[0] in STATUS_WORD:
            for line in r.stderr.split("\n"):
                mm = re.match(r"\s+(PASS|LEAK|FAIL \+ LEAK|FAIL|XFAIL|TIMEOUT|FLAKY \S+|SIG[A-Z0-9]+|ABORT SIG \d+)\s+\[[^\]]*\]\s+(.*)$", line)
                if not mm or mm.group(2).rstrip("\r") != f"{binary_id(t)} {t['name']}": continue
                if mm.group(1) != STATUS_WORD[gotn[0]]:
                    out.append(viol(sc, r, "result", f"test {t['name']!r}: its only attempt ended {gotn[0]} and its status line says {mm.group(1)!r} (expected {STATUS_WORD[gotn[0]]!r}): each outcome is reported as what it is"))
        # … and, for a test with several attempts: every `TRY k` line shows the k-th attempt's outcome, and the test is shown FLAKY
        # (with the number of the attempt that passed) exactly when its last attempt passed after failed ones
        if gotn == want and len(gotn) > 1:
            flaky_lines = []
            for line in r.stderr.split("\n"):
                mm = re.match(r"\s+(?:TRY (\d+) )?(PASS|LEAK|FAIL|XFAIL|TMT|FLAKY \S+|SIG \d+|[A-Z][A-Z0-9]+)\s+\[[^\]]*\]\s+(.*)$", line)
                if not mm or mm.group(3).rstrip("\r") != f"{binary_id(t)} {t['name']}": continue
                if mm.group(2).startswith("FLAKY"): flaky_lines.append(mm.group(2)); continue
                if mm.group(2) in ("SLOW", "TRMNTG"): continue      # progress notices of a running attempt, not results
                if mm.group(1) and 1 <= int(mm.group(1)) <= len(gotn):
                    g = gotn[int(mm.group(1)) - 1]
                    if g.startswith("FS") and g[2:].isdigit():
                        n = int(g[2:]); oks = {f"SIG {n}"} | ({LINUX_SIGNAMES[n]} if n in LINUX_SIGNAMES else set())
                        if mm.group(2) not in oks:
                            out.append(viol(sc, r, "result", f"test {t['name']!r}: attempt {mm.group(1)} was ended by signal {n} and its line says {mm.group(2)!r} (expected one of {sorted(oks)})"))
                        continue
                    SHORT = dict(STATUS_WORD, T="TMT", Fl="FAIL")
                    if g in SHORT and mm.group(2) != SHORT[g] and not (g == "L" and mm.group(2) == "PASS"):
                        out.append(viol(sc, r, "result", f"test {t['name']!r}: attempt {mm.group(1)} ended {g} and its line says {mm.group(2)!r} (expected {SHORT[g]!r})"))
                    # (a flaky test's passing attempt is shown as `TRY k PASS` also when it leaked: a leak is a pass, and the
                    #  structured result — events, statistics, JUnit — carries the leak; not demanded here)
            is_flaky = gotn[-1] in ("P", "L")
            if is_flaky and not any(f == f"FLAKY {len(gotn)}/{total}" for f in flaky_lines):
                out.append(viol(sc, r, "flaky", f"test {t['name']!r} passed on attempt {len(gotn)} of {total} after failed attempts but is not shown as FLAKY {len(gotn)}/{total} (lines: {flaky_lines})"))
            if not is_flaky and flaky_lines:
                out.append(viol(sc, r, "flaky", f"test {t['name']!r} failed every attempt ({gotn}) but is shown {flaky_lines}"))
        if gotn == want and len(gotn) == 1 and any(re.match(r"\s+FLAKY \S+\s+\[[^\]]*\]\s+" + re.escape(f"{binary_id(t)} {t['name']}") + r"\r?$", line) for line in r.stderr.split("\n")):
            out.append(viol(sc, r, "flaky", f"test {t['name']!r} ran a single attempt and is shown as flaky"))
        for s, a in zip(sts, exp):
            slow = s.split(":")[2] == "slow"
            if a.get("slow") and not slow and a["expect"] != "T": out.append(viol(sc, r, "slow-flag", f"test {t['name']!r}: ran {SLOW_PERIOD + 250}ms with period {SLOW_PERIOD}ms but is not marked slow"))
            if not a.get("slow") and slow and a["kind"] not in ("leakpass",): out.append(viol(sc, r, "slow-flag", f"test {t['name']!r}: fast attempt marked slow"))
    return out


def mon_retries(sc, r):
    """C07: attempt count, stop on success, delay respected"""
    out = []
    total = sc.meta["retries"] + 1
    pbt = procs_by_test(r)
    for t in sc.meta["tests"]:
        if not selected(sc, t): continue
        procs = pbt.get((t["bin"], t["name"]), [])
        exp = expected_attempts(t, total)
        if len(procs) != len(exp):
            out.append(viol(sc, r, "attempt-count", f"test {t['name']!r}: {len(procs)} attempts, expected {len(exp)} (policy allows {total}; outcomes {[a['expect'] for a in exp]})"))
        d = sc.meta["delay_ms"]
        for k, (a, b) in enumerate(zip(procs, procs[1:])):
            if not a.get("end"): continue
            want = d * (2 ** k if sc.meta["backoff"] == "exponential" else 1)
            gap = (b["start"] - a["end"][1]) / 1e6
            if gap < want - 1:
                out.append(viol(sc, r, "delay", f"test {t['name']!r}: retry {k + 2} started {gap:.0f} ms after attempt {k + 1} ended, configured delay {want} ms"))
    return out


def mon_argv_env(sc, r):
    """C15"""
    out = []
    run_ids = set()
    for p in r.procs:
        if p.get("start") is None or p.get("child") or p.get("bin") == "vscript" or "--exact" not in p.get("argv", []): continue
        argv = p["argv"]; name = argv[1] if len(argv) > 1 else ""
        t = next((t for t in sc.meta["tests"] if t["name"] == name and t["bin"] == p["bin"]), None)
        if t is None: out.append(viol(sc, r, "argv", f"process for unknown test argv={argv}")); continue
        want = ["--exact", t["name"], "--nocapture"] + (["--ignored"] if t["ignored"] else []) + (["--extra", "arg with space"] if sc.meta["extra"] and t["bin"] == "t_two" else [])
        if argv != want: out.append(viol(sc, r, "argv", f"test {t['name']!r}: argv {argv}, expected {want}"))
        pkgdir = os.path.join(e2e.WS, t["pkg"])
        if os.path.realpath(p["cwd"]) != os.path.realpath(pkgdir): out.append(viol(sc, r, "cwd", f"test {t['name']!r}: cwd {p['cwd']}, expected {pkgdir}"))
        if p.get("pgid") != p.get("pid"): out.append(viol(sc, r, "pgid", f"test {t['name']!r}: not a process-group leader (pid {p.get('pid')} pgid {p.get('pgid')})"))
        if p.get("stdin_null") != 1: out.append(viol(sc, r, "stdin", f"test {t['name']!r}: stdin is not the null device"))
        env = p["env"]
        wantenv = {"NEXTEST": "1", "NEXTEST_EXECUTION_MODE": "process-per-test", "NEXTEST_PROFILE": "default", "CARGO_PKG_NAME": t["pkg"],
                   "CARGO_PKG_VERSION": "0.3.1" if t["pkg"] == "alpha" else "1.2.0", "CARGO_MANIFEST_DIR": pkgdir}
        for k, v in wantenv.items():
            if env.get(k) != v: out.append(viol(sc, r, "env", f"test {t['name']!r}: {k}={env.get(k)!r}, expected {v!r}"))
        if env.get("VT_FROM_CONFIG") != "cfg": out.append(viol(sc, r, "env", f"test {t['name']!r}: cargo config [env] VT_FROM_CONFIG={env.get('VT_FROM_CONFIG')!r}, expected 'cfg'"))
        rid = env.get("NEXTEST_RUN_ID")
        if not rid or rid in ("evil-inherited", "evil-config"): out.append(viol(sc, r, "env", f"test {t['name']!r}: NEXTEST_RUN_ID={rid!r} (inherited value not overridden)"))
        run_ids.add(rid)
    if len(run_ids) > 1: out.append(viol(sc, r, "env", f"NEXTEST_RUN_ID differs between processes of one run: {sorted(run_ids)}"))
    return out


def mon_output(sc, r):
    """C16: captured bytes per attempt == bytes written (length + xxh64)"""
    out = []
    total = sc.meta["retries"] + 1
    fin = finished_statuses(r)
    if r.exit is not None and r.exit < 0:
        out.append(viol(sc, r, "capture", f"nextest itself died by signal {-r.exit} ({'combined' if sc.meta.get('combined') else 'split'} capture mode): {r.stderr[-300:]!r}"))
    for t in sc.meta["tests"]:
        if not selected(sc, t): continue
        sts = fin.get(test_key(t), [[]])[0]
        for s, a in zip(sts, expected_attempts(t, total)):
            f = s.split(":")
            cap = ":".join(f[5:])
            mc = re.match(r"combined:(\d+):([0-9a-f]+)", cap)
            if mc and sc.meta.get("combined"):
                # one pipe for both streams: the process writes stdout then stderr, so the combined capture is their concatenation
                data = (xxh64.pattern(*a["out"]) if a["out"] else b"") + (xxh64.pattern(*a["err"]) if a["err"] else b"")
                if int(mc.group(1)) != len(data) or int(mc.group(2), 16) != xxh64.xxh64(data):
                    out.append(viol(sc, r, "capture", f"test {t['name']!r} attempt {f[0]}: combined capture is {mc.group(1)} bytes (xxh64 {mc.group(2)}), the process wrote {len(data)} bytes (stdout then stderr; xxh64 {xxh64.xxh64(data):016x})"))
                continue
            if sc.meta.get("no_capture") and cap == "split:none:none":
                continue   # --no-capture: the test writes to nextest's own terminal, nothing is captured (and the property speaks of captured output)
            m = re.match(r"split:(\d+):([0-9a-f]+):(\d+):([0-9a-f]+)", cap)
            if not m:
                out.append(viol(sc, r, "capture", f"test {t['name']!r}: unexpected capture record {cap}")); continue
            for (stream, ln, hs, spec) in (("stdout", int(m.group(1)), m.group(2), a["out"]), ("stderr", int(m.group(3)), m.group(4), a["err"])):
                data = a["raw_out"] if a.get("raw_out") is not None else (xxh64.pattern(spec[0], spec[1], spec[2]) if spec else b"")
                if ln != len(data) or int(hs, 16) != xxh64.xxh64(data):
                    out.append(viol(sc, r, "capture", f"test {t['name']!r} attempt {f[0]}: captured {stream} is {ln} bytes (xxh64 {hs}), the process wrote {len(data)} bytes (xxh64 {xxh64.xxh64(data):016x})"))
    return out


def mon_junit(sc, r):
    """C17: JUnit vs events vs statistics vs summary"""
    out = []
    total = sc.meta["retries"] + 1
    if not os.path.exists(r.junit): return [viol(sc, r, "junit", "no JUnit file written")]
    try:
        root = ET.parse(r.junit).getroot()
    except ET.ParseError as e:
        return [viol(sc, r, "junit-xml", f"JUnit file is not well-formed XML: {e}")]
    cases = {}
    # XML attribute-value normalisation turns a literal tab / newline in a name into a blank on parsing
    norm = lambda s: re.sub(r"[\t\n\r ]", "", s or "")
    for suite in root.findall("testsuite"):
        for c in suite.findall("testcase"):
            cases.setdefault((suite.get("name"), norm(c.get("name"))), []).append(c)
    sel = [t for t in sc.meta["tests"] if selected(sc, t)]
    want_keys = {(binary_id(t), norm(t["name"])) for t in sel}
    if set(cases) != want_keys:
        out.append(viol(sc, r, "junit-cases", f"JUnit testcases {sorted(cases)} != finished tests {sorted(want_keys)}"))
    n_fail = n_flaky = 0
    for t in sel:
        cs = cases.get((binary_id(t), norm(t["name"])), [])
        if len(cs) != 1:
            out.append(viol(sc, r, "junit-cases", f"test {t['name']!r}: {len(cs)} testcase elements")); continue
        c = cs[0]; exp = expected_attempts(t, total)
        final_ok = exp[-1]["expect"] in ("P", "L")
        has_fail = c.find("failure") is not None or c.find("error") is not None
        if has_fail == final_ok: out.append(viol(sc, r, "junit-status", f"test {t['name']!r}: final attempt {'passed' if final_ok else 'failed'} but testcase {'has' if has_fail else 'lacks'} a failure/error element"))
        flaky = len(c.findall("flakyFailure")) + len(c.findall("flakyError")); rerun = len(c.findall("rerunFailure")) + len(c.findall("rerunError"))
        if final_ok and (flaky != len(exp) - 1 or rerun): out.append(viol(sc, r, "junit-reruns", f"test {t['name']!r}: passed after {len(exp) - 1} failed attempts but has {flaky} flakyFailure / {rerun} rerunFailure"))
        if not final_ok and (rerun != len(exp) - 1 or flaky): out.append(viol(sc, r, "junit-reruns", f"test {t['name']!r}: failed after {len(exp)} attempts but has {rerun} rerunFailure / {flaky} flakyFailure"))
        # failed attempts of a flaky test are failures: their output is stored iff store-failure-output
        for ff in c.findall("flakyFailure") + c.findall("flakyError") + c.findall("rerunFailure") + c.findall("rerunError"):
            has = ff.find("system-out") is not None or ff.find("system-err") is not None
            if has != sc.meta["store_f"]: out.append(viol(sc, r, "junit-store", f"test {t['name']!r}: a failed attempt ({ff.tag}) has stored output = {has}, store-failure-output = {sc.meta['store_f']}"))
        stored = c.find("system-out") is not None or c.find("system-err") is not None
        want_store = sc.meta["store_s"] if final_ok else sc.meta["store_f"]
        if final_ok and stored != want_store: out.append(viol(sc, r, "junit-store", f"test {t['name']!r}: passing test output stored={stored}, store-success-output={sc.meta['store_s']}"))
        if not final_ok and not want_store and stored: out.append(viol(sc, r, "junit-store", f"test {t['name']!r}: failing test output stored although store-failure-output=false"))
        if not final_ok and sc.meta["store_f"]:
            texts = [e.text or "" for e in c.iter() if e.tag in ("system-out", "system-err")]
            for k, a in enumerate(exp):
                # (combined capture: one stored stream holding stdout followed by stderr)
                specs = [(a["out"][0], a["out"][1], "ascii", a["err"])] if (sc.meta.get("combined") and a["out"] and a["err"]) else [s_ + (None,) for s_ in (a["out"], a["err"]) if s_]
                for spec in specs:
                    if spec and spec[2] == "ascii" and spec[1] >= 10:
                        data = xxh64.pattern(spec[0], spec[1], "ascii").decode() + (xxh64.pattern(spec[3][0], spec[3][1], "ascii").decode() if spec[3] else "")
                        # the patterns are periodic: a short one recurs inside a long one, so count stored elements that *are* this output
                        cnt = sum(1 for t in texts if data in t and len(t) - len(data) < 64)
                        if cnt != 1: out.append(viol(sc, r, "junit-attribution", f"test {t['name']!r}: the output of attempt {k + 1} is stored {cnt} times in its testcase (must be exactly once)"))
        if exp[-1].get("junit_text") is not None and sc.meta["store_f"] and not final_ok:
            texts = [e.text or "" for e in c.iter() if e.tag in ("system-out", "system-err")]
            for tx in texts:
                if tx != exp[-1]["junit_text"]:
                    out.append(viol(sc, r, "junit-text", f"test {t['name']!r}: stored output {tx!r} is not the process's output under the documented normalisations (lossy UTF-8, ANSI escapes and XML-invalid characters removed): expected {exp[-1]['junit_text']!r}")); break
            if len(texts) != 2 * len(exp): out.append(viol(sc, r, "junit-text", f"test {t['name']!r}: {len(texts)} stored streams for {len(exp)} failed attempts"))
        n_fail += 0 if final_ok else 1
        n_flaky += 1 if final_ok and len(exp) > 1 else 0
    # statistics carried by RunFinished and the summary line
    rf = [d for (ns, k, d) in r.events if k == "RunFinished"]
    if rf:
        st = dict(re.findall(r"(\w+): (\d+)", rf[-1]))
        st = {k: int(v) for k, v in st.items()}
        if st.get("finished_count") != len(sel) or st.get("failed", 0) + st.get("exec_failed", 0) + st.get("timed_out", 0) != n_fail or st.get("flaky") != n_flaky:
            out.append(viol(sc, r, "stats", f"RunFinished statistics {st} disagree with the per-test results (finished {len(sel)}, failed {n_fail}, flaky {n_flaky})"))
        if st.get("passed", 0) + st.get("failed", 0) + st.get("exec_failed", 0) + st.get("timed_out", 0) != st.get("finished_count"):
            out.append(viol(sc, r, "stats", f"counters do not partition: {st}"))
    m = re.search(r"Summary \[[^\]]*\] (\d+)(?:/(\d+))? tests? run: (\d+) passed(?: \(([^)]*)\))?(?:, (\d+) failed)?(?:, (\d+) exec failed)?(?:, (\d+) timed out)?, (\d+) skipped", r.stderr)
    if m and sel:
        ran, passed = int(m.group(1)), int(m.group(3))
        failed = sum(int(x) for x in (m.group(5), m.group(6), m.group(7)) if x)
        if ran != len(sel) or failed != n_fail or passed != len(sel) - n_fail:
            out.append(viol(sc, r, "summary", f"summary line says {ran} run / {passed} passed / {failed} failed, per-test results say {len(sel)} / {len(sel) - n_fail} / {n_fail}"))
    elif sel and not m:
        out.append(viol(sc, r, "summary", "no Summary line found on stderr"))
    return out


def mon_concurrency(sc, r):
    """C08 / C14 end-to-end: Σ threads-required of alive test processes ≤ test-threads; global slots unique among overlapping processes, equal across attempts"""
    out = []
    T = sc.meta["threads"]
    ps = [p for p in r.procs if p.get("start") and p.get("end") and not p.get("child") and "--exact" in p.get("argv", [])]
    evs = sorted([(p["start"], 1, p) for p in ps] + [(p["end"][1], 0, p) for p in ps], key=lambda x: (x[0], x[1]))
    alive = []
    for (t, kind, p) in evs:
        if kind == 1:
            alive.append(p)
            R = sc.meta.get("group_r") if sc.meta.get("group_m") else None
            if R == "all": R = T          # threads-required = "num-test-threads": the run's width
            w = lambda q: T if (sc.meta.get("heavy") and q["bin"] == "t_three") else (min(R, T) if (R and q["bin"] == "t_two") else 1)
            wsum = sum(w(q) for q in alive)
            if wsum > T: out.append(viol(sc, r, "threads", f"alive test processes need {wsum} threads (binaries {[q['bin'] for q in alive]}; threads-required: t_three {'all' if sc.meta.get('heavy') else 1}, t_two {R or 1}) with test-threads = {T}")); break
            slots = [q["env"].get("NEXTEST_TEST_GLOBAL_SLOT") for q in alive]
            if len(set(slots)) != len(slots): out.append(viol(sc, r, "slot-unique", f"overlapping processes share a global slot: {slots}")); break
            if any(s is None or int(s) >= T for s in slots): out.append(viol(sc, r, "slot-bound", f"global slots {slots} with test-threads = {T}")); break
        else:
            alive = [q for q in alive if q is not p]
    for (b, n), procs in procs_by_test(r).items():
        s = {p["env"].get("NEXTEST_TEST_GLOBAL_SLOT") for p in procs}
        if len(s) > 1: out.append(viol(sc, r, "slot-stable", f"attempts of {n!r} saw different global slots {sorted(s)}"))
        g = {p["env"].get("NEXTEST_TEST_GROUP") for p in procs}
        gs = {p["env"].get("NEXTEST_TEST_GROUP_SLOT") for p in procs}
        M = sc.meta.get("group_m")
        if M and b == "t_two":
            if g != {"g1"}: out.append(viol(sc, r, "group-env", f"NEXTEST_TEST_GROUP of {n!r} (in group g1) is {sorted(map(str, g))}"))
            if len(gs) != 1 or not all(x is not None and x.isdigit() and int(x) < M for x in gs): out.append(viol(sc, r, "group-slot", f"NEXTEST_TEST_GROUP_SLOT of {n!r} over its attempts is {sorted(map(str, gs))}; group g1 has max-threads = {M}"))
        else:
            if g != {"@global"}: out.append(viol(sc, r, "group-env", f"NEXTEST_TEST_GROUP of {n!r} is {sorted(map(str, g))}, expected @global"))
            if gs != {"none"}: out.append(viol(sc, r, "group-env", f"NEXTEST_TEST_GROUP_SLOT of {n!r} is {sorted(map(str, gs))}, expected none"))
    pbt = procs_by_test(r)
    for t in sc.meta["tests"]:
        if selected(sc, t) and not pbt.get((t["bin"], t["name"])):
            out.append(viol(sc, r, "no-slot", f"selected test {t['name']!r} ({'group g1' if sc.meta.get('group_m') and t['bin'] == 't_two' else 'no group'}) was never given a slot and never ran in an un-cancelled run (exit {r.exit}): {r.stderr[-200:]!r}"))
    M = sc.meta.get("group_m")
    if M:
        alive = []
        for (t, kind, p) in evs:
            if p["bin"] != "t_two": continue
            if kind == 1:
                alive.append(p)
                R = sc.meta.get("group_r") or 1
                if R == "all": R = sc.meta["threads"]
                if len(alive) * min(R, M) > M: out.append(viol(sc, r, "group-threads", f"{len(alive)} tests of group g1 (threads-required {R} each) alive at once, max-threads = {M}")); break
                sl = [q["env"].get("NEXTEST_TEST_GROUP_SLOT") for q in alive]
                if len(set(sl)) != len(sl): out.append(viol(sc, r, "group-slot", f"overlapping tests of group g1 share a group slot: {sl}")); break
            else: alive = [q for q in alive if q is not p]
    return out


SLOT_SLACK_NS = 400_000_000


def mon_least_free(sc, r):
    """C14 end-to-end: "each slot is the smallest number free when the test was dispatched".  A test that got slot s was dispatched
    while slots 0..s-1 were all held, so for every k < s some other test holding slot k (global: any test; group: a member of the
    same group) must have been in flight around the moment of dispatch.  In flight = from its TestStarted to its TestFinished
    event; the moment of dispatch = shortly before the test's own TestStarted; both widened by a slack for the lag between the
    executor and the dispatcher.  (Not evaluated when the dispatcher is deliberately stalled.)"""
    out = []
    if getattr(sc, "stall_stderr_s", 0): return out
    S, F = {}, {}
    for (ns, kind, data) in r.events:
        if kind == "TestStarted": S.setdefault(data.split(" ")[0], ns)
        if kind == "TestFinished": F.setdefault(data.split(" ")[0], ns)
    def key_of(b, n):
        for k in S:
            bid, nm = k.split("/")
            dec = lambda x: "" if x == "-" else bytes.fromhex(x).decode("utf-8", "replace")
            if dec(bid).split("::")[-1] == b and dec(nm) == n: return k
        return None
    info = []
    for (b, n), procs in procs_by_test(r).items():
        k = key_of(b, n)
        if k is None: continue
        e = procs[0]["env"]
        gs, grp, grs = e.get("NEXTEST_TEST_GLOBAL_SLOT"), e.get("NEXTEST_TEST_GROUP"), e.get("NEXTEST_TEST_GROUP_SLOT")
        if gs is None or not gs.isdigit(): continue
        info.append({"name": n, "gs": int(gs), "grp": grp, "grs": int(grs) if grs is not None and grs.isdigit() else None,
                     "lo": S[k] - SLOT_SLACK_NS, "hi": (F[k] + SLOT_SLACK_NS) if k in F else float("inf"),
                     "dlo": S[k] - SLOT_SLACK_NS, "dhi": min(S[k], procs[0]["start"])})
    for t in info:
        for (what, slot, same) in (("global", t["gs"], lambda u: True), ("group", t["grs"], lambda u: u["grp"] == t["grp"])):
            if slot is None: continue
            for kk in range(slot):
                holders = [u for u in info if u is not t and same(u) and (u["gs"] if what == "global" else u["grs"]) == kk and u["lo"] <= t["dhi"] and u["hi"] >= t["dlo"]]
                if not holders:
                    inflight = [(u["name"], u["gs"] if what == "global" else u["grs"]) for u in info if u is not t and same(u) and u["lo"] <= t["dhi"] and u["hi"] >= t["dlo"]]
                    out.append(viol(sc, r, "slot-least", f"test {t['name']!r} was given {what} slot {slot}" + (f" in group {t['grp']}" if what == "group" else "") + f" although slot {kk} was free: the tests" + (" of that group" if what == "group" else "") + f" in flight when it was dispatched held {inflight}"))
                    break
    return out


def summarize(res):
    n_tests = sum(len(sc.meta["tests"]) for sc, r in res)
    n_procs = sum(len([p for p in r.procs if p.get("start")]) for sc, r in res)
    kinds = {}
    for sc, r in res:
        for t in sc.meta["tests"]:
            for a in t["attempts"]: kinds["attempt:" + a["kind"]] = kinds.get("attempt:" + a["kind"], 0) + 1
        kinds[f"threads:{sc.meta['threads']}"] = kinds.get(f"threads:{sc.meta['threads']}", 0) + 1
        kinds[f"retries:{sc.meta['retries']}"] = kinds.get(f"retries:{sc.meta['retries']}", 0) + 1
    return n_tests, n_procs, kinds


if __name__ == "__main__":
    res, broken = run_family(int(sys.argv[1]) if len(sys.argv) > 1 else 1, "quick")
    print("broken", broken)
    for sc, r in res:
        print(sc.name, "exit", r.exit, "wall", int(r.wall_ms), "events", len(r.events), "procs", len(r.procs))
        for mon in (mon_exit, mon_once, mon_results, mon_retries, mon_argv_env, mon_output, mon_junit, mon_concurrency):
            for v in mon(sc, r): print("   ", mon.__name__, v["what"][:300])


def check(monitors, seed, tier, n_quick=15, n_thorough=60):
    """Run the family and the given monitors; returns a dict to be merged into a property's result."""
    res, broken = run_family(seed, tier, n_quick, n_thorough)
    violations = []; notes = []
    def evaluate(sc, r):
        out = []
        for mon in monitors: out += mon(sc, r)
        for v in out:
            if v["kind"] == "protocol" and v["what"] not in broken: broken.append(v["what"])
        return [v for v in out if v["kind"] != "protocol"]
    for sc, r in res:
        if getattr(r, "error", None): continue
        vs, note = e2e.confirm(sc, r, evaluate, os.path.join(vlib.BUILD, "e2e-run", f"mix-{seed}"))
        violations += vs
        if note: notes.append(note)
    n_tests, n_procs, kinds = summarize(res) if res else (0, 0, {})
    samples = []
    for sc, r in res[:2]:
        samples.append({"scenario": sc.name, "tests": [(t["bin"], t["name"], [a["kind"] for a in t["attempts"]], "ignored" if t["ignored"] else "") for t in sc.meta["tests"]],
                        "retries": sc.meta["retries"], "test_threads": sc.meta["threads"], "exit": r.exit, "events": len(r.events), "processes": len([p for p in r.procs if p.get("start")])})
    return {"e2e_runs": len(res), "e2e_tests": n_tests, "e2e_processes": n_procs, "dist": {"e2e:" + k: v for k, v in kinds.items()},
            "violations": violations, "broken": broken, "samples": samples, "notes": notes,
            "rule": "end-to-end family `mix`: the real cargo-nextest (rebuilt from the working tree) runs 3-7 scripted tests per scenario over 3 binaries in 2 packages, with hostile test names, per-attempt behaviours (pass, fail with code, death by signal, leaked pipe, slow, timeout, output patterns up to 200 kB in various chunkings), retries 0-2 with fixed/exponential delays, 1/2/4 test threads, --run-ignored default/all, hostile inherited environment; monitors recompute the property from the processes' own records"}


def merge(base, e2e_part):
    """Merge an e2e part into an in-process result dict."""
    base["evaluations"] = base.get("evaluations", 0) + e2e_part["e2e_runs"]
    base["distinct_nontrivial"] = base.get("distinct_nontrivial", 0) + e2e_part["e2e_runs"]
    base["traces"] = base.get("traces", 0) + e2e_part["e2e_runs"]
    base.setdefault("dist", {}).update(e2e_part["dist"])
    base["dist"]["e2e:runs"] = e2e_part["e2e_runs"]; base["dist"]["e2e:processes"] = e2e_part["e2e_processes"]
    base.setdefault("violations", []).extend(e2e_part["violations"])
    base.setdefault("broken", []).extend(e2e_part["broken"])
    base.setdefault("samples", []).extend(e2e_part["samples"])
    base["rule"] = base.get("rule", "") + " || " + e2e_part["rule"]
    base.setdefault("notes", []).extend(e2e_part.get("notes", []))
    return base
