"""C18 — setup scripts run iff needed, serially, first; their variables reach matching tests only."""
import vlib
from props import common, mix, scr

THM = "NextestModel.Thm.C18"
GEN = []
TRUSTED = ["model: Model/Scripts (enabled set, definition order, parse_env_file, SetupScriptExecuteData::apply); the truth of each rule's platform/filter for each test is an input of the model (C05/C06 decide it) and is computed independently by the scenario generator",
           "serial execution, completion before the first test, and the exit status are observed end-to-end on the scripted processes' own records (executor sequencing is not modelled)"]
ASSUMPTIONS = ["a failing script cancelling the run with exit status 105 is proved in C10.script_failure_always_cancels + C01.exit_codes and observed here end-to-end"]


def run(seed, tier, replay=None):
    result = {"evaluations": 0, "distinct_nontrivial": 0, "rule": "", "samples": [], "traces": 0, "dist": {}, "violations": [], "broken": []}
    return mix.merge(result, scr.check(seed, tier, 12, 120))

KNOWN_MATCHERS = {}
