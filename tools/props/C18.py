"""C18 — setup scripts run iff needed, serially, first; their variables reach matching tests only."""
import vlib
from props import common, mix, scr, disp

THM = "NextestModel.Thm.C18"
GEN = ["tables"]
GEN_GROUPS = ["scripts"]
TRUSTED = ["model: Model/Scripts (enabled set, definition order, parse_env_file, SetupScriptExecuteData::apply); the truth of each rule's platform/filter for each test is an input of the model (C05/C06 decide it) and is computed independently by the scenario generator",
           "serial execution, completion before the first test, and the exit status are observed end-to-end on the scripted processes' own records (executor sequencing is not modelled)"]
ASSUMPTIONS = ["a failing script cancelling the run with exit status 105 is proved in C10.script_failure_always_cancels + C01.exit_codes and observed here end-to-end"]


def run_p(seed, tier, replay=None):
    """in-process: which scripts a profile enables and which tests each applies to (real SetupScripts / is_enabled through a guarded
    hook) over rules with host/target platform specifications and host- and target-platform binaries, against Model/Scripts"""
    n = 300 if tier == "quick" else 40000
    r = common.run_streams([("p_scripts", [seed, n, vlib.BUILD + "/scripts-tmp"])])
    items = [([b, args, idx], req, impl) for (b, args, idx, req, impl) in r.cases]
    mism, _ = common.compare(items, None)
    violations = []
    for m in mism:
        f = m["req"].split(" ")
        violations.append({"what": f"setup-script enablement differs from the documented rule: scripts (definition order) {f[1]}, rules (setup:truth per test) {f[2]}: nextest says {m['impl']}, the rules say {m['model']}",
                           "payload": {"stream": m["origin"][:2], "line_index": m["origin"][2], "request": m["req"], "impl": m["impl"], "spec": m["model"]}, "kind": "enablement"})
    return {"evaluations": len(items), "distinct_nontrivial": len({q for _, q, _ in items if "1" in q.split(" ")[2]}),
            "rule": "p_scripts: 1-3 scripts in random definition order, 1-3 rules with filters from a pool of 9 and platform specifications from a pool of 8 (string and host/target table forms), tests of a host-platform and a target-platform binary; enabled list (order) and per-test applicability compared with the model; non-trivial = some rule applies to some test",
            "samples": [f"{q[:200]}  =>  {i[:120]}" for (_, q, i) in items[:3]], "traces": len(items), "dist": {"scripts:" + k: v for k, v in r.dist.items()},
            "violations": violations, "broken": r.broken, "impl_failures": r.impl_failures}


def run_d(seed, tier):
    """in-process, dispatcher side of "if any script fails no test is started": after a SetupScriptFinished whose result is not a
    success (non-zero exit, death by signal, exec failure, time-out) the real DispatcherContext must refuse every later start
    request (test, retry, setup script) and announce none; direct monitor on the implementation's own replies"""
    r, items, model = disp.run_disp(seed, tier, 800, 20000)
    violations = []
    nt = 0
    for (o, q, i), m in zip(items, model):
        steps, _ = disp.split_steps(i)
        evs = q.split(" ")[3].split(",")
        failed_at = None
        for k, st in enumerate(steps):
            if st == ["panic"]: break
            ev = evs[k]
            if failed_at is not None:
                ems = st[2].split(";;") if st[2] else []
                bad = None
                if ev.startswith(("S:", "R:", "sS:")) and st[1] == "ack": bad = f"the start request {ev} was acknowledged"
                for e in ems:
                    if e.startswith(("TestStarted(", "TestRetryStarted(", "SetupScriptStarted(")): bad = f"{e.split('(')[0]} was announced"
                if bad:
                    violations.append({"what": f"a setup script failed at step {failed_at} ({evs[failed_at]}) but afterwards {bad} (events {','.join(evs[:k + 1])})",
                                       "payload": {"stream": o[:2], "line_index": o[2], "events": evs[:k + 1], "request": q, "impl": i}, "kind": "script-failure-start"})
                    break
            elif ev.startswith("sF:") and ev.split(":")[3] not in ("P", "L"):
                failed_at = k; nt += 1
                if st[3] == "None":
                    violations.append({"what": f"setup script finished with result {ev.split(':')[3]} but the run is not being cancelled (events {','.join(evs[:k + 1])})",
                                       "payload": {"stream": o[:2], "line_index": o[2], "events": evs[:k + 1], "request": q, "impl": i}, "kind": "script-failure-cancel"})
                    break
    return {"evaluations": len(items), "distinct_nontrivial": nt,
            "rule": "p_disp (see C10): event sequences with 0-3 setup scripts finishing with every result kind; monitor: once a script has finished unsuccessfully the dispatcher's cancel state is set in that very step and no later start request is acknowledged or announced; non-trivial = sequences containing a failing script",
            "samples": [], "traces": len(items), "dist": {"disp:" + k: v for k, v in r.dist.items()}, "violations": violations, "broken": r.broken, "impl_failures": r.impl_failures}


def run(seed, tier, replay=None):
    a, d = run_p(seed, tier, replay), run_d(seed, tier)
    for k in ("evaluations", "distinct_nontrivial", "traces"): a[k] = a.get(k, 0) + d.get(k, 0)
    a["rule"] += " || " + d["rule"]; a["dist"].update(d["dist"])
    for k in ("violations", "broken", "impl_failures"): a[k] = a.get(k, []) + d.get(k, [])
    return mix.merge(a, scr.check(seed, tier, 12, 120))

KNOWN_MATCHERS = {}
