"""C11 — shutdown signals reach every running test, escalate to SIGKILL; nextest exits."""
import vlib
from props import common, mix, tim

THM = "NextestModel.Thm.C11"
THM_EXTRA = ["NextestModel.Thm.C11Term"]
GEN = ["tables"]
GEN_GROUPS = ["signals", "sighandler", "termexit", "respond"]
TRUSTED = ["model: Model/Unit (reaction of each phase to a Shutdown request) and Model/Dispatcher (broadcast to the registered units); signal tables regenerated from unix.rs on every run (shutdown_terminate_method, timeout_terminate_method, job_control_child, every libc::kill addressing -pid)",
           "signal.rs's tokio signal streams, delivery to the process group and that nothing survives SIGKILL are the runtime's and the kernel's: observed end-to-end (receivers' logs, pid liveness after exit, exit status, wall-clock exit)"]
ASSUMPTIONS = ["PARTIAL: `nextest exits as soon as every unit has exited` is observed (exit within 1 s of the last death), not proved: the dispatcher's run loop termination is not modelled"]


def run(seed, tier, replay=None):
    result = {"evaluations": 0, "distinct_nontrivial": 0, "rule": "", "samples": [], "traces": 0, "dist": {}, "violations": [], "broken": []}
    return mix.merge(result, tim.run_family("sig", seed, tier, 8, 80))

KNOWN_MATCHERS = {}
