"""C20 — filterset parsing is total and printing a parsed expression round-trips."""
import json, os, subprocess, binascii
import vlib
from props import common

THM = "NextestModel.Thm.C20"
GEN = ["tables"]
GEN_GROUPS = ["escape", "setdef"]
TRUSTED = ["model: Model/Syntax (hand-written mirror of parsing.rs / unicode_string.rs / glob.rs text handling; corresponded on every generated string)",
           "regex / globset validity of a pattern is an input to the model (asked from those crates directly)",
           "winnow is not modelled; stack depth is not expressible in the model (deep-nesting stream runs the real parser in a subprocess)"]
ASSUMPTIONS = ["InvalidRegex spans: the model computes them as ParseSingleError::invalid_regex does (start + the span regex-syntax blames, or the whole regex text when regex-syntax accepts what regex refuses); which of the two, and the blamed span, come from the oracle (the regex / regex-syntax crates called by the harness) and a blamed span is used only if it lies inside the text regex-syntax was given"]


def unhex(h):
    return "" if h == "-" else binascii.unhexlify(h).decode("utf-8", "replace")


def deep_nesting(tier):
    """Runs the real parser on deeply nested inputs in a subprocess (a stack overflow kills only that process)."""
    res = []
    depths = [200, 1000, 3000, 10000] if tier == "quick" else [200, 1000, 3000, 10000, 50000, 200000]
    for shape in ("paren", "bang", "notword"):
        for d in depths:
            p = subprocess.run([os.path.join(vlib.TARGET, "debug", "p_deep"), shape, str(d)], stdout=subprocess.PIPE, stderr=subprocess.PIPE, timeout=600)
            out = p.stdout.decode().strip()
            res.append({"shape": shape, "depth": d, "rc": p.returncode, "out": out[:100]})
    return res


def run(seed, tier, replay=None):
    n = 4000 if tier == "quick" else 150000
    streams = [("p_syntax", [seed, n])]
    r = common.run_streams(streams)
    # p_deep must be built too
    ok, blog, _ = vlib.cargo_build(["p_deep"])
    items = [([b, args, idx], req, impl) for (b, args, idx, req, impl) in r.cases]
    # corpus first
    corp = [(["corpus", [], k], l.split("\t")[0], l.split("\t")[1]) for k, l in enumerate(common.corpus_lines("syntax"))]
    mism, monf = common.compare_with_oracle(corp + items)
    violations, detail = [], []
    nt = set()
    for (_, q, i) in items:
        if q.startswith("parse ") and (" (" in i and i.count("(") >= 3 or i.startswith("err") or i.startswith("ok+err")):
            nt.add(q)
    for (o, q, i) in items:
        if q.startswith("rt ") and i.startswith("rt ") and not i.endswith(" same"):
            # property monitor on the real code: print-then-parse must give an equal expression
            violations.append({"what": f"round trip fails on the implementation: {unhex(q.split(' ')[1])!r} prints as {unhex(i.split(' ')[1])!r} -> {i.split(' ')[-1]}",
                               "payload": {"stream": o[:2], "line_index": o[2], "input": unhex(q.split(' ')[1]), "printed": unhex(i.split(' ')[1]), "result": i.split(' ')[-1], "request": q},
                               "kind": "rt", "input": unhex(q.split(' ')[1]), "printed": unhex(i.split(' ')[1])})
    for m in monf:
        violations.append({"what": f"parser result violates the property: {m['impl'][:200]} on {unhex(m['req'].split(' ')[2])!r}",
                           "payload": {"stream": m["origin"][:2], "line_index": m["origin"][2], "input": unhex(m["req"].split(" ")[2]), "impl": m["impl"], "request": m["req"]},
                           "kind": "mon", "input": unhex(m["req"].split(" ")[2])})
    for m in mism:
        if m["impl"] == "panic":
            violations.append({"what": f"parser panicked on {unhex(m['req'].split(' ')[1])!r}",
                               "payload": {"input": unhex(m["req"].split(" ")[1]), "request": m["req"]}, "kind": "panic", "input": unhex(m["req"].split(" ")[1])})
            continue
        k = m["req"].split(" ")[0]
        acc_i = m["impl"].split(" ")[0]; acc_m = m["model"].split(" ")[0]
        inp = unhex(m["req"].split(" ")[1])
        if k == "parse" and ((acc_i == "ok") != (acc_m == "ok") or (acc_i == "ok" and m["impl"] != m["model"])):
            # accept/reject or the accepted expression differs from the documented grammar's: property-relevant for C05/C20
            violations.append({"what": f"parser disagrees with the model on {inp!r}: impl={m['impl'][:160]} model={m['model'][:160]}",
                               "payload": {"stream": m["origin"][:2], "line_index": m["origin"][2], "input": inp, "impl": m["impl"], "model": m["model"], "request": m["req"]},
                               "kind": "parse", "input": inp})
        else:
            detail.append({"req": m["req"][:200], "input": inp, "impl": m["impl"][:200], "model": m["model"][:200]})
    deep = deep_nesting(tier) if ok else []
    for d in deep:
        if d["rc"] != 0:
            violations.append({"what": f"parser crashed (rc={d['rc']}) on nesting shape={d['shape']} depth={d['depth']}",
                               "payload": {"shape": d["shape"], "depth": d["depth"], "rc": d["rc"], "cmd": f".build/target/debug/p_deep {d['shape']} {d['depth']}"},
                               "kind": "deep", "depth": d["depth"], "shape": d["shape"]})
    samples = [f"{unhex(q.split(' ')[1])!r} => {i[:140]}" for (_, q, i) in items if q.startswith("parse ")][25:31]
    return {
        "evaluations": len(items) + len(deep), "distinct_nontrivial": len(nt),
        "rule": "p_syntax: strings generated from the grammar with every operator spelling, blanks/newlines, all matcher kinds, names with quotes/backslashes/escapes/controls/non-ASCII/leading =~#/ and regexes with escaped delimiters; plus a mutated stream (delete/insert/replace/truncate), prefixes and junk over the significant alphabet; each input is parsed (AST + error kinds + spans compared), span-checked, and round-tripped; non-trivial = produces an AST with >= 3 nodes or at least one error; deep-nesting inputs run in a subprocess",
        "samples": samples, "traces": len(items), "dist": r.dist,
        "violations": violations, "detail_mismatches": detail, "broken": r.broken + ([] if ok else ["p_deep does not build"]),
        "impl_failures": r.impl_failures, "notes": [f"deep nesting: {deep}"],
    }


def _f4(v):
    # stack overflow of the recursive-descent parser on very deep nesting (no depth limit); depth >= 3000 only
    return v.get("kind") == "deep" and v.get("depth", 0) >= 3000

KNOWN_MATCHERS = {"F4": _f4}
