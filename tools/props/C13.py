"""C13 — partition shards are disjoint, cover the selection, and are stable as documented."""
import json
import vlib
from props import common

THM = "NextestModel.Thm.C13"
GEN = []
TRUSTED = ["model: Model/XXH64, Model/Partition, Model/Filter (hand-written; corresponded)",
           "aho-corasick / filterset truth values enter as inputs"]
ASSUMPTIONS = [
    "libtest listing semantics: `--list` prints all tests, `--list --ignored` the ignored ones (custom harnesses may print disjoint lists; both shapes are generated)",
    "xxhash-rust implements XXH64 (the Lean implementation is pinned to reference vectors and compared with it on random inputs)",
]


def derive_part_lines(origin, req, impl):
    """From one `pout` case derive, per ignored class, the request `part <p> <candidates>` whose expected
    answer is the implementation's own M/p pattern over *its* candidates (tests it passed through all
    other stages) in name order.  This isolates the partition stage from the other filters."""
    f = req.split(" ")
    part = f[3]
    if part == "-" or impl.startswith("error") or impl == ".":
        return []
    out = []
    for ig in ("0", "1"):
        names, bits = [], []
        for e in impl.split(";"):
            n, i, v = e.split(":")
            if i == ig and v in ("M", "p"):
                names.append(n); bits.append("1" if v == "M" else "0")
        if names:
            out.append((origin, f"part {part} {','.join(names)}", "".join(bits)))
    return out


def run(seed, tier, replay=None):
    n = 1500 if tier == "quick" else 160000
    streams = [("p_filter", [seed, n])]
    if replay:
        rp = json.load(open(replay))
        if "stream" in rp: streams = [tuple(rp["stream"])]
    r = common.run_streams(streams)
    items, samples = [], []
    nontrivial = set()
    for (b, args, idx, req, impl) in r.cases:
        origin = [b, args, idx]
        k = req.split(" ", 1)[0]
        if k == "xxh":
            items.append((origin, req, impl))
            nontrivial.add(req)
        elif k == "pout":
            d = derive_part_lines(origin, req, impl)
            items += d
            for (_, q, i) in d:
                # non-trivial: at least 2 candidates and at least 2 shards
                if "," in q.split(" ")[2] and not q.split(" ")[1].endswith(":1"):
                    nontrivial.add(q)
        elif req.startswith("mon shards-partition"):
            items.append((origin, req, impl))
            nontrivial.add(req)
    mism, monf = common.compare(items, None)
    violations = []
    for m in mism:
        violations.append({"what": f"partition stage disagrees with the specification: {m['req'][:200]} impl={m['impl']} spec={m['model']}",
                           "payload": {"stream": m["origin"][:2], "line_index": m["origin"][2], "request": m["req"], "impl": m["impl"], "model": m["model"],
                                       "explain": "request `part <kind:m:n> <candidates>`: the implementation's selected(1)/partition-rejected(0) pattern over its own candidates (tests passing all other stages, name order, one ignored class) vs Partition.run; `xxh`: xxh64 of the bytes"},
                           "kind": m["req"].split(" ")[0], "req": m["req"], "impl": m["impl"], "model": m["model"]})
    for m in monf:
        violations.append({"what": f"shards 1..n are not a partition of the candidates: {m['impl'][:200]}",
                           "payload": {"stream": m["origin"][:2], "line_index": m["origin"][2], "request": m["req"], "impl": m["impl"]},
                           "kind": "mon", "req": m["req"], "impl": m["impl"]})
    samples = [f"{q}  =>  {i}" for (_, q, i) in items[:3]] + [f"{q}  =>  {i}" for (_, q, i) in items if q.startswith("part c")][:3]
    return {
        "evaluations": len(items), "distinct_nontrivial": len(nontrivial),
        "rule": "p_filter generates filter configurations x listings (names over a small alphabet so that infix/equality relations occur, ignored flags, libtest-style and disjoint listings, count/hash partitions with 1..5 shards) and random byte strings for xxh64; a derived `part` case is non-trivial when it has >= 2 candidates and >= 2 shards; monitor cases run all shards 1..n",
        "samples": samples, "traces": len(items), "dist": r.dist,
        "violations": violations, "broken": r.broken, "impl_failures": r.impl_failures,
    }


def _is_f2(v):
    return False

KNOWN_MATCHERS = {}
