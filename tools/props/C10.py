"""C10 — after cancellation begins nothing new starts; cancellation only escalates."""
import vlib
from props import common, disp

THM = "NextestModel.Thm.C10"
GEN = ["tables"]
GEN_GROUPS = ["cancel", "delayloop", "respond"]
TRUSTED = ["model: Model/Dispatcher (hand-written mirror of handle_event / begin_cancel / broadcast; corresponded through the stepping hook)",
           "the stepping hook repeats the part of DispatcherContext::run that maps a response to a broadcast (run itself needs live signal/input handlers)",
           "tokio channel FIFO order and select! fairness are not modelled: theorems hold for every event order"]
ASSUMPTIONS = ["units leave retry delays on cancellation and the run ends when they end: proved on Model/System (no_delay_sat_out, wake_ends_delay) and observed end-to-end in the families cancel (fail-fast / max-fail) and sig (shutdown signals)"]


def monitors(req, impl):
    """Direct checks of the property on the implementation's own outputs."""
    steps, _ = disp.split_steps(impl)
    evs = req.split(" ")[3].split(",")
    sev = 0
    announced = []
    mf = req.split(" ")[2]
    for k, st in enumerate(steps):
        if st == ["panic"]: break
        resp, reply, emitted, cancel = st[0], st[1], st[2], st[3]
        ems = emitted.split(";;") if emitted else []
        if sev > 0:
            if reply == "ack": return (k, "a start request was acknowledged after cancellation began", evs[:k + 1])
            for e in ems:
                if e.startswith(("TestStarted(", "TestRetryStarted(", "SetupScriptStarted(")):
                    return (k, f"{e.split('(')[0]} emitted after cancellation began", evs[:k + 1])
        new = disp.SEV.get(cancel, -1)
        if new < sev: return (k, f"cancel state de-escalated to {cancel}", evs[:k + 1])
        for e in ems:
            if e.startswith("RunBeginCancel("):
                reason = e[len("RunBeginCancel("):].split(",")[0]
                if reason in announced: return (k, f"RunBeginCancel({reason}) announced twice", evs[:k + 1])
                if disp.SEV["Some(" + reason + ")"] <= sev: return (k, f"RunBeginCancel({reason}) does not escalate", evs[:k + 1])
                announced.append(reason)
                if reason == "TestFailure":
                    if mf == "a": return (k, "test failure cancelled a no-fail-fast run", evs[:k + 1])
                    fa = sum(int(x[len(p):]) for x in st[4].split(" ") for p in ("fa", "to", "xf") if x.startswith(p) and x[len(p):].isdigit() and not x.startswith("fk"))
                    if fa < int(mf): return (k, f"test-failure cancellation began with {fa} < {mf} failures", evs[:k + 1])
        # the limit was reached in this step but cancellation for test failure did not begin
        if evs[k].startswith("F:") and mf != "a" and sev == 0:
            fa = sum(int(x[len(p):]) for x in st[4].split(" ") for p in ("fa", "to", "xf") if x.startswith(p) and x[len(p):].isdigit())
            if fa >= int(mf) and not any(e.startswith("RunBeginCancel(TestFailure") for e in ems):
                return (k, f"failure limit {mf} reached ({fa}) but cancellation did not begin", evs[:k + 1])
        sev = max(sev, new)
    return None


def run_p(seed, tier, replay=None):
    r, items, model = disp.run_disp(seed, tier)
    violations, detail = [], []
    nt = set()
    for (o, q, i), m in zip(items, model):
        if "RunBeginCancel" in i: nt.add(q)
        mon = monitors(q, i)
        if mon:
            violations.append({"what": f"{mon[1]} (events {','.join(mon[2])}; init/max-fail {q.split(' ')[1:3]})",
                               "payload": {"stream": o[:2], "line_index": o[2], "initial_run_count": q.split(" ")[1], "max_fail": q.split(" ")[2], "events": mon[2], "what": mon[1], "request": q, "impl": i}, "kind": "monitor"})
            continue
        d = disp.first_diff(q, i, m, ["response", "reply", "emitted:start-cancel", "cancel", "delivered", "broadcast", "panic"])
        if d:
            k, f, a, b, evs = d
            # emitted/response/reply/cancel/delivered are what the property speaks about
            violations.append({"what": f"dispatcher step {k} differs from the model in `{f}`: impl={a[:160]} model={b[:160]} (events {','.join(evs)})",
                               "payload": {"stream": o[:2], "line_index": o[2], "initial_run_count": q.split(" ")[1], "max_fail": q.split(" ")[2], "events": evs, "field": f, "impl": a, "model": b, "request": q}, "kind": "step"})
    samples = [f"{q}  =>  {i[:400]}" for (_, q, i) in items[:2]]
    return {
        "evaluations": len(items), "distinct_nontrivial": len(nt),
        "rule": "p_disp: event sequences of 1-30 events over 0-6 tests and 0-3 setup scripts (starts, receiver closes, attempt failures, retries, finishes with every result kind, skips, the four shutdown signals up to three times, stop/continue, info, report error, enter), generated from a simulation of the units so that most sequences are executor-plausible, with 1 in 25 events adversarial (duplicate starts, finishes of unknown tests, ...); max-fail all/1/2/3; non-trivial = the run begins cancellation at least once",
        "samples": samples, "traces": len(items), "dist": r.dist,
        "violations": violations, "detail_mismatches": detail, "broken": r.broken, "impl_failures": r.impl_failures,
    }

def run(seed, tier, replay=None):
    from props import mix, tim
    r = mix.merge(run_p(seed, tier, replay), tim.run_family("cancel", seed, tier, 8, 35))
    # cancellation by a shutdown signal: nothing starts afterwards, no retry delay is sat out (the signal-specific clauses are C11's)
    return mix.merge(r, tim.run_family("sig", seed, tier, 8, 40, kinds=("retry-after-signal", "exit-late", "start-after-signal", "hang", "system")))

KNOWN_MATCHERS = {}
