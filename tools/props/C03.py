"""C03 — an attempt's reported result reflects what the test process actually did."""
import vlib
from props import common, mix

THM = "NextestModel.Thm.C03"
THM_EXTRA = ["NextestModel.Thm.C03Unit"]
GEN = ["tables"]
GEN_GROUPS = ["drainexit", "verdict", "signames", "statuswords"]
CHECK_MODULES = ["NextestModel.Lemmas.Unit", "NextestModel.Model.Unit", "NextestModel.Model.Classify"]
TRUSTED = ["model: Model/Classify (create_execution_result, AbortStatus::extract on Unix, describe)",
           "std's decoding of raw wait statuses (ExitStatusExt) is compared exhaustively with the model's"]
ASSUMPTIONS = ["PARTIAL: that `status = Timeout` is set exactly on the terminate-for-timeout path, that spawn errors become ExecFail, and the leak detection timing are executor behaviour exercised end-to-end only (pending)"]


def run_p(seed, tier, replay=None):
    r = common.run_streams([("p_exec", [seed, 10])])
    items = [([b, args, idx], req, impl) for (b, args, idx, req, impl) in r.cases if req.startswith(("classify ", "describe "))]
    mism, _ = common.compare(items, None)
    violations = []
    for m in mism:
        f = m["req"].split(" ")
        if f[0] == "describe":
            violations.append({"what": f"a test whose attempts ended {f[1]} is described as {m['impl']}, the property says {m['model']} (the last attempt decides; flaky = passed, possibly leaking, after earlier failed attempts)",
                               "payload": {"stream": m["origin"][:2], "line_index": m["origin"][2], "attempts": f[1], "impl": m["impl"], "spec": m["model"], "request": m["req"]}, "kind": "describe"})
            continue
        raw = int(f[1])
        what = f"exit code {(raw >> 8) & 255}" if raw & 127 == 0 else f"signal {raw & 127}{' (core dumped)' if raw & 128 else ''}"
        violations.append({"what": f"a process that ended with {what} (pipe error={f[2]}, leaked={f[3]}) is classified {m['impl']}, the property says {m['model']}",
                           "payload": {"stream": m["origin"][:2], "line_index": m["origin"][2], "raw_wait_status": raw, "child_error": f[2], "leaked": f[3], "impl": m["impl"], "spec": m["model"], "request": m["req"]}, "kind": "classify"})
    samples = [f"{q}  =>  {i}" for (_, q, i) in items[::211]][:8]
    return {
        "evaluations": len(items), "distinct_nontrivial": len(set(q for _, q, _ in items)),
        "rule": "exhaustive: every sequence of 1-4 attempt results over {P, L, F, F+leak, signal, exec-fail, timeout} through the real ExecutionStatuses::describe; every exit code 0-255 and every signal 1-64 with and without core dump, each x {pipe read error} x {leaked}: 1536 raw wait statuses through the real create_execution_result; all are distinct and all are non-trivial (each is a row of the property's table)",
        "samples": samples, "traces": len(items), "dist": r.dist, "exhaustive": True,
        "violations": violations, "broken": r.broken, "impl_failures": r.impl_failures,
    }


def run(seed, tier, replay=None):
    from props import tim
    r = mix.merge(run_p(seed, tier, replay), mix.check([mix.mon_results], seed, tier))
    # timed-out attempts whatever the process then does (exits 0 on SIGTERM, ignores it, writes and exits): result Timeout
    r = mix.merge(r, tim.run_family("slow", seed, tier, 4, 30, kinds=("result",)))
    # a leaky pass whose pipes are still being watched when a fail-fast cancellation arrives
    r = mix.merge(r, tim.run_family("cancel", seed, tier, 7, 35, kinds=("result",)))
    # "reported flaky iff …" also in the run statistics and the summary line: the real RunStats / Reporter against the model (p_junit)
    from props import C17
    j = C17.run_junit(seed, tier)
    for v in j["violations"]:
        ip, mp = v["payload"]["impl"].split(" ## "), v["payload"]["spec"].split(" ## ")
        if len(ip) == 3 and len(mp) == 3 and ip[1:] != mp[1:]:
            r["violations"].append(dict(v, what="flaky / passed / failed counts reported for the run disagree with the per-test attempt results: " + v["what"]))
    r["broken"] += j["broken"]; r["evaluations"] += j["evaluations"]; r["traces"] += j["traces"]; r["distinct_nontrivial"] += j["distinct_nontrivial"]
    r["rule"] += " || " + j["rule"]
    return r

KNOWN_MATCHERS = {}
