"""C17 — summary counts, run statistics and the JUnit report all tell the same story."""
import vlib
from props import common, mix, disp

THM = "NextestModel.Thm.C17"
GEN = ["tables"]
GEN_GROUPS = ["xml", "placeholders"]
CHECK_MODULES = ["NextestModel.Lemmas.Junit", "NextestModel.Model.Junit", "NextestModel.Model.XmlText"]
TRUSTED = ["model: Model/Dispatcher (RunStats bookkeeping) and Model/Junit (MetadataJunit::write_event: suites, cases, status, reruns, store rule; quick-junit's add_test_case counters), both corresponded in-process",
           "guarded hooks ExecutionStatuses::verif_new, RunStats::verif_on_test_finished / verif_on_setup_script_finished, config::VerifScriptId (constructors / callers of crate-private functions)",
           "quick-junit's character filter (XmlString::new, read from the release Cargo.lock pins) and junit.rs's xml_string are regenerated tables (Gen.xmlStringStripped, Gen.junitNonchars*, Gen.junitSetterArms); strip-ansi-escapes is a parameter of the model of which only 'removes characters, adds none' is assumed (its result on each generated text is handed to the model); quick-junit's XML serialisation (escaping of markup) is third-party: exercised (the report is parsed back with quick-xml in-process and with expat end-to-end), not modelled"]
ASSUMPTIONS = ["every attempt of a finished test before its last one failed (the executor's attempt loop stops at the first success): WFAttempts; the aggregator's `unreachable!` is outside it (junit_no_panic)",
               "xml_text_valid is about the texts set through TestcaseOrRerun (message, description, system-out, system-err); names and attribute values (binary ids, test names) go through XmlString::new only"]


def parse_stats(s):
    out = {}
    for tok in s.split(" "):
        k = tok.rstrip("0123456789"); out[k] = int(tok[len(k):])
    return out


def run_p(seed, tier, replay=None):
    r, items, model = disp.run_disp(seed, tier, 1500, 40000)
    violations = []
    nt = set()
    for (o, q, i), m in zip(items, model):
        si, _ = disp.split_steps(i)
        evs = q.split(" ")[3].split(",")
        if any(e.startswith("F:") for e in evs): nt.add(q)
        for k, st in enumerate(si):
            if st == ["panic"]: break
            s = parse_stats(st[4])
            ok = (s["p"] + s["fa"] + s["xf"] + s["to"] == s["f"] and s["fk"] <= s["p"] and s["lk"] <= s["p"] and s["ps"] <= s["p"] and s["fs"] <= s["fa"]
                  and s["sp"] + s["sfa"] + s["sx"] + s["st"] == s["sf"])
            if not ok:
                violations.append({"what": f"run statistics violate the documented relations after events {','.join(evs[:k+1])}: {st[4]}",
                                   "payload": {"stream": o[:2], "line_index": o[2], "request": q, "events": evs[:k + 1], "stats": st[4]}, "kind": "partition"})
                break
            for e in (st[2].split(";;") if st[2] else []):
                if e.startswith("TestFinished(") and "[" + st[4] + "]" not in e:
                    violations.append({"what": f"TestFinished carries statistics different from the run's: {e} vs {st[4]}", "payload": {"request": q, "events": evs[:k + 1]}, "kind": "event-stats"})
        # "the statistics that determine the exit status … agree with the per-test results": the final verdict (summarize_final)
        # against the verdict read off the history alone
        _, final = disp.split_steps(i)
        if final is not None:
            from props import C01
            exp = C01.expected_final(q)
            if final != exp:
                violations.append({"what": f"the final verdict {final} (which decides the exit status) disagrees with the per-test results, which say {exp} (events {','.join(evs)}, {q.split(' ')[1]} selected)",
                                   "payload": {"stream": o[:2], "line_index": o[2], "request": q, "impl_final": final, "spec_final": exp}, "kind": "final"})
                continue
        d = disp.first_diff(q, i, m, ["stats"])
        if d:
            k, f, a, b, ev = d
            violations.append({"what": f"statistics after step {k} differ from the model: impl={a} model={b} (events {','.join(ev)})",
                               "payload": {"stream": o[:2], "line_index": o[2], "events": ev, "impl": a, "model": b, "request": q}, "kind": "stats"})
    samples = [f"{q}  =>  {disp.split_steps(i)[0][-1][4] if disp.split_steps(i)[0] and disp.split_steps(i)[0][-1] != ['panic'] else 'panic'}" for (_, q, i) in items[:4]]
    return {
        "evaluations": len(items), "distinct_nontrivial": len(nt),
        "rule": "p_disp event sequences (see C10); after every step the implementation's RunStats are checked against the documented relations and against the model, and every TestFinished event against the statistics of that moment; non-trivial = at least one test finishes",
        "samples": samples, "traces": len(items), "dist": r.dist,
        "violations": violations, "broken": r.broken, "impl_failures": r.impl_failures,
    }


def strip_types(canon):
    """drop the `type` attribute texts (not part of the property) from a canonical report"""
    import re
    canon = re.sub(r"/(f|e):[0-9a-f-]+/", r"/\1/", canon)
    return re.sub(r"(ff|fe|rf|re)~[0-9a-f-]+~", r"\1~", canon)


def describe_junit(req, impl, model):
    def uh(x):
        try: return bytes.fromhex(x).decode("utf-8", "replace") if x not in ("-", ".") else ""
        except ValueError: return x
    evs = []
    for e in req.split(" ")[1].split(";"):
        f = e.split(":")
        if f[0] == "T": evs.append(f"test {uh(f[1])} {uh(f[2])!r} attempts {f[3]} store-success/failure={f[4]}")
        elif f[0] == "S": evs.append(f"script {uh(f[1])} {f[2]} store={f[3]}")
    ip, mp = impl.split(" ## "), model.split(" ## ")
    parts = []
    if len(ip) != 3 or len(mp) != 3: return f"JUnit report unreadable: {impl[:200]}"
    if strip_types(ip[0]) != strip_types(mp[0]):
        isu, msu = ip[0].split("@")[0].split("|"), mp[0].split("@")[0].split("|")
        for a, b in zip(isu + [""] * len(msu), msu + [""] * len(isu)):
            if strip_types(a) != strip_types(b):
                parts.append(f"suite in the report: {a[:300]!r}; the events demand: {b[:300]!r} (fields: kind:id:tests:failures:errors:cases; case = name/status/attempt carried/output stored/reruns tag~type~attempt~stored)"); break
        if not parts: parts.append(f"report totals {ip[0].split('@')[-1]} vs {mp[0].split('@')[-1]}")
    if ip[1] != mp[1]: parts.append(f"summary line numbers (run:passed:flaky:leaky:failed:exec-failed:timed-out) {ip[1]} but the per-test results give {mp[1]}")
    if ip[2] != mp[2]: parts.append(f"run statistics {ip[2]} but the per-test results give {mp[2]}")
    return "JUnit report / summary / statistics disagree with the finished tests: " + "; ".join(parts) + " — events: " + " | ".join(evs)[:600]


def run_junit(seed, tier, replay=None):
    n = 300 if tier == "quick" else 40000
    r = common.run_streams([("p_junit", [seed, n, vlib.BUILD + "/junit-tmp"])])
    items = [([b, args, idx], req, impl) for (b, args, idx, req, impl) in r.cases]
    mism, _ = common.compare(items, None)
    violations, detail = [], []
    def uhx(x):
        try: return bytes.fromhex(x).decode("utf-8", "replace") if x not in ("-", ".") else ""
        except ValueError: return x
    for m in mism:
        if m["req"].startswith("xmltext "):
            f = m["req"].split(" ")
            raw = f"{f[1]}: stdout {uhx(f[2])!r} stderr {uhx(f[4])!r}"
            got = m["impl"]
            if got.startswith("xml-error:"): what = f"the JUnit report is not well-formed XML ({uhx(got.split(':', 1)[1])[:200]}) when a failing test's stored output is {raw}"
            elif got.endswith(";!non-xml-char"): what = f"the JUnit report holds a character XML 1.0 forbids when a failing test's stored output is {raw}"
            else: what = f"stored output in the JUnit report is not the test's output in the right element minus the characters XML forbids: captured {raw}, report has (system-out;system-err) {';'.join(repr(uhx(x)) for x in got.split(';'))}, expected {';'.join(repr(uhx(x)) for x in m['model'].split(';'))}"
            violations.append({"what": what, "payload": {"stream": m["origin"][:2], "line_index": m["origin"][2], "request": m["req"], "impl": m["impl"], "spec": m["model"]}, "kind": "junit-xmltext"})
            continue
        ip, mp = m["impl"].split(" ## "), m["model"].split(" ## ")
        concrete = len(ip) != 3 or len(mp) != 3 or strip_types(ip[0]) != strip_types(mp[0]) or ip[1:] != mp[1:]
        if concrete:
            violations.append({"what": describe_junit(m["req"], m["impl"], m["model"]), "payload": {"stream": m["origin"][:2], "line_index": m["origin"][2], "request": m["req"], "impl": m["impl"], "spec": m["model"]}, "kind": "junit-model"})
        else:
            detail.append({"stream": m["origin"][:2], "line_index": m["origin"][2], "request": m["req"], "impl": m["impl"], "model": m["model"], "note": "only the `type` attribute texts differ"})
    nt = {q for _, q, i in items if (q.startswith("junit ") and q.count("T:") + q.count("S:") >= 2) or (q.startswith("xmltext ") and i.split(";")[0] != q.split(" ")[2])}
    return {"evaluations": len(items), "distinct_nontrivial": len(nt),
            "rule": "p_junit: event lists (0-9 events: finished tests of 4 binaries with 1-4 attempts whose non-final attempts failed, finished setup scripts, other events; store-success/failure-output drawn per event) through the real Reporter; the JUnit file is parsed back (suites, counters, cases, status elements, reruns with the attempt each carries, stored output attributed by marker), the Summary line is read from the display reporter and RunStats folded by the real on_test_finished; all three compared with Model/Junit; then as many `xmltext` cases: a failing test whose captured output (split with both / either / no stream, combined, or a start error) is hostile text (0-14 pieces per stream drawn from markup characters, C0 and C1 controls, ANSI escape sequences, U+FFFE/U+FFFF and other edge code points, invalid UTF-8) through the real Reporter, the report parsed back, every character of the document checked to be an XML Char, and the stored text compared with Model/XmlText.xmlString (the ANSI stripper's result on that text handed to the model as a table); non-trivial = at least two finished units, or a hostile text the filters change",
            "samples": [f"{q[:200]}  =>  {i[:200]}" for (_, q, i) in items[:3] + [x for x in items if x[1].startswith("xmltext ")][3:5]], "traces": len(items), "dist": {"junit:" + k: v for k, v in r.dist.items()},
            "violations": violations, "broken": r.broken, "impl_failures": r.impl_failures, "detail_mismatches": detail}


def run(seed, tier, replay=None):
    a = run_p(seed, tier, replay); b = run_junit(seed, tier, replay)
    for k in ("evaluations", "distinct_nontrivial", "traces"): a[k] += b[k]
    a["rule"] += " || " + b["rule"]; a["samples"] += b["samples"]; a["dist"].update(b["dist"])
    for k in ("violations", "broken", "impl_failures"): a[k] = a.get(k, []) + b.get(k, [])
    a["detail_mismatches"] = a.get("detail_mismatches", []) + b["detail_mismatches"]
    return mix.merge(a, mix.check([mix.mon_junit], seed, tier))

KNOWN_MATCHERS = {}
