"""C17 — summary counts, run statistics and the JUnit report all tell the same story."""
import vlib
from props import common, mix, disp

THM = "NextestModel.Thm.C17"
GEN = []
TRUSTED = ["model: Model/Dispatcher (RunStats bookkeeping); quick-junit's XML writing and escaping are third-party and not modelled"]
ASSUMPTIONS = ["PARTIAL: the JUnit aggregation (one testcase per finished test, reruns, stored output, XML character validity) is not yet modelled or checked here; this check covers the counters (passed + failed + exec-failed + timed-out = finished, sub-counts) and that every TestFinished event carries the run's statistics and the test's full attempt list"]


def parse_stats(s):
    out = {}
    for tok in s.split(" "):
        k = tok.rstrip("0123456789"); out[k] = int(tok[len(k):])
    return out


def run_p(seed, tier, replay=None):
    r, items, model = disp.run_disp(seed, tier, 1500, 40000)
    violations = []
    nt = set()
    for (o, q, i), m in zip(items, model):
        si, _ = disp.split_steps(i)
        evs = q.split(" ")[3].split(",")
        if any(e.startswith("F:") for e in evs): nt.add(q)
        for k, st in enumerate(si):
            if st == ["panic"]: break
            s = parse_stats(st[4])
            ok = (s["p"] + s["fa"] + s["xf"] + s["to"] == s["f"] and s["fk"] <= s["p"] and s["lk"] <= s["p"] and s["ps"] <= s["p"] and s["fs"] <= s["fa"]
                  and s["sp"] + s["sfa"] + s["sx"] + s["st"] == s["sf"])
            if not ok:
                violations.append({"what": f"run statistics violate the documented relations after events {','.join(evs[:k+1])}: {st[4]}",
                                   "payload": {"stream": o[:2], "line_index": o[2], "request": q, "events": evs[:k + 1], "stats": st[4]}, "kind": "partition"})
                break
            for e in (st[2].split(";;") if st[2] else []):
                if e.startswith("TestFinished(") and "[" + st[4] + "]" not in e:
                    violations.append({"what": f"TestFinished carries statistics different from the run's: {e} vs {st[4]}", "payload": {"request": q, "events": evs[:k + 1]}, "kind": "event-stats"})
        d = disp.first_diff(q, i, m, ["stats"])
        if d:
            k, f, a, b, ev = d
            violations.append({"what": f"statistics after step {k} differ from the model: impl={a} model={b} (events {','.join(ev)})",
                               "payload": {"stream": o[:2], "line_index": o[2], "events": ev, "impl": a, "model": b, "request": q}, "kind": "stats"})
    samples = [f"{q}  =>  {disp.split_steps(i)[0][-1][4] if disp.split_steps(i)[0] and disp.split_steps(i)[0][-1] != ['panic'] else 'panic'}" for (_, q, i) in items[:4]]
    return {
        "evaluations": len(items), "distinct_nontrivial": len(nt),
        "rule": "p_disp event sequences (see C10); after every step the implementation's RunStats are checked against the documented relations and against the model, and every TestFinished event against the statistics of that moment; non-trivial = at least one test finishes",
        "samples": samples, "traces": len(items), "dist": r.dist,
        "violations": violations, "broken": r.broken, "impl_failures": r.impl_failures,
    }


def run(seed, tier, replay=None):
    return mix.merge(run_p(seed, tier, replay), mix.check([mix.mon_junit], seed, tier))

KNOWN_MATCHERS = {}
