"""Helpers shared by the per-property modules: running in-process correspondence streams."""
import os, sys, json, time
import vlib
from vlib import log

CORPUS = os.path.join(vlib.ROOT, "corpus")


def corpus_lines(name):
    """Minimised past disagreements for a stream: lines `<request>\\t<expected impl output>`; run first."""
    p = os.path.join(CORPUS, name + ".txt")
    if not os.path.exists(p): return []
    return [l.rstrip("\n") for l in open(p) if l.strip() and not l.startswith("#")]


class PResult:
    def __init__(self):
        self.cases = []      # (req, impl)
        self.dist = {}
        self.broken = []     # correspondence machinery failures (build, crash)
        self.impl_failures = []


def run_streams(streams, timeout=3000):
    """streams: [(bin, [args])].  Builds the harness against /repo's working tree and runs each."""
    r = PResult()
    bins = sorted({b for b, _ in streams})
    ok, blog, bt = vlib.cargo_build(bins)
    if not ok:
        log("cargo build FAILED:\n" + "\n".join(blog.split("\n")[-40:]))
        r.broken.append("harness does not build against the working tree: " + " | ".join([l for l in blog.split("\n") if l.startswith("error")][:5]))
        return r
    for b, args in streams:
        rc, out, err = vlib.run_bin(b, args, timeout=timeout)
        if rc != 0:
            r.impl_failures.append(f"{b} {args}: rc={rc} {err[-400:]}")
            r.broken.append(f"harness {b} exited rc={rc}: {err[-300:]}")
        try:
            r.cases += [(b, args, i, req, impl) for i, (req, impl) in enumerate(vlib.parse_stream(out))]
        except RuntimeError as e:
            r.broken.append(str(e))
        for k, v in vlib.parse_dist(err).items():
            r.dist[k] = r.dist.get(k, 0) + v
    return r


def compare(items, relevant_kind):
    """items: [(origin, req, impl)].  Sends non-monitor requests to the Lean driver and diffs.
    Monitor lines (`mon ...`) must have impl output `ok`.
    Returns (mismatches, monitor_failures); each mismatch: dict(origin, req, impl, model)."""
    reqs = [(o, q, i) for (o, q, i) in items if not q.startswith("mon ")]
    mons = [(o, q, i) for (o, q, i) in items if q.startswith("mon ")]
    model = vlib.run_driver([q for _, q, _ in reqs])
    mism = []
    for (o, q, i), m in zip(reqs, model):
        if i != m:
            mism.append({"origin": o, "req": q, "impl": i, "model": m})
    monf = [{"origin": o, "req": q, "impl": i} for (o, q, i) in mons if i != "ok"]
    return mism, monf


def compare_with_oracle(items, oracle_bin="p_syntax", max_rounds=4):
    """Like compare, for requests whose last field is a regex/glob validity table: the driver answers
    `need r<hex>,g<hex>` for lookups it is missing; validity is then obtained from the `regex` /
    `globset` crates (harness `oracle` sub-command) and the request is re-sent with the table."""
    reqs = [[o, q, i] for (o, q, i) in items if not q.startswith("mon ")]
    mons = [(o, q, i) for (o, q, i) in items if q.startswith("mon ")]
    tables = [dict() for _ in reqs]
    answers = vlib.run_driver([q for _, q, _ in reqs])
    cache = {}
    for _ in range(max_rounds):
        pending = [k for k, a in enumerate(answers) if a.startswith("need ")]
        if not pending: break
        want = set()
        for k in pending:
            for e in answers[k][5:].split(","):
                if e not in cache: want.add(e)
        want = sorted(want)
        if want:
            rc, out, err = vlib.run_bin(oracle_bin, ["oracle"], input=("\n".join(want) + "\n").encode())
            vals = out.split("\n")
            for e, v in zip(want, vals):
                cache[e] = v.strip()
        newreqs = []
        for k in pending:
            for e in answers[k][5:].split(","):
                tables[k][e] = cache[e]
            # value = validity digit, then (refused regexes) `~a~b`: the span regex-syntax blames
            tbl = ",".join(f"{e[0]}{tables[k][e][:1]}{e[1:]}{tables[k][e][1:]}" for e in sorted(tables[k]))
            base = reqs[k][1].rsplit(" ", 1)[0]
            newreqs.append(base + " " + tbl)
        newans = vlib.run_driver(newreqs)
        for k, a, q in zip(pending, newans, newreqs):
            answers[k] = a
            reqs[k][1] = q
    mism = []
    for (o, q, i), m in zip(reqs, answers):
        if i != m:
            mism.append({"origin": o, "req": q, "impl": i, "model": m})
    monf = [{"origin": o, "req": q, "impl": i} for (o, q, i) in mons if i != "ok"]
    return mism, monf
