"""End-to-end stream "cliargs": test-binary arguments after `--` on the real command line
(`cargo nextest list … -- <args>`), against the Lean model of merge_test_binary_args + name matching."""
import json, os, random, re, subprocess
import vlib, e2e
from e2e import hx

TESTS = [("foo", False), ("foobar", False), ("bar", False), ("baz::foo", False), ("qux", True), ("foo_ign", True), ("--exact", False), ("skipme", False)]
POOL = ["foo", "bar", "ba", "baz::foo", "qux", "skipme", "--exact", "--skip", "--", "--ignored", "--include-ignored", "--nocapture", "-x", "--exact", "--skip", "--", "foo_ign"]
CORPUS = [["--exact", "--skip", "foo"], ["--skip", "foo", "--", "--exact", "bar"], ["foo", "--", "--exact"], ["--", "--skip", "foo"], ["--exact", "foo", "--exact"], ["--skip"], ["--ignored", "--include-ignored"], ["--ignored", "foo"]]


def check(seed, tier, n_quick=40, n_thorough=400):
    broken = []
    ok, err = e2e.build_workspace()
    if not ok: broken.append("scripted workspace does not build: " + err[-300:])
    okb, blog, _ = vlib.cargo_build(["cargo-nextest-verif"])
    if not okb: broken.append("cargo-nextest (hooked) does not build from the working tree")
    if broken: return {"e2e_runs": 0, "e2e_tests": 0, "e2e_processes": 0, "dist": {}, "violations": [], "broken": broken, "samples": [], "rule": ""}
    rng = random.Random(seed * 3571)
    work = os.path.join(vlib.BUILD, "e2e-run", f"cliargs-{seed}"); os.makedirs(work, exist_ok=True)
    spec = os.path.join(work, "spec.txt")
    open(spec, "w").write("".join(f"list t_one {hx(n)} {1 if ig else 0}\n" for n, ig in TESTS))
    env = dict(os.environ, CARGO_TARGET_DIR=e2e.E2E_TARGET, CARGO_NET_OFFLINE="true", VERIF_SPEC=spec, NO_COLOR="1")
    for k in list(env):
        if k.startswith("NEXTEST_"): del env[k]
    n = n_quick if tier == "quick" else n_thorough
    cases = [(a, None) for a in CORPUS]
    while len(cases) < n:
        args = [rng.choice(POOL) for _ in range(rng.randrange(0, 7))]
        cases.append((args, rng.choice([None, None, None, "only", "all", "default"])))
    reqs = []; impl = []; dist = {}
    def one(case):
        args, ri = case
        cmd = [e2e.NEXTEST, "nextest", "list", "--manifest-path", os.path.join(e2e.WS, "Cargo.toml"), "--offline", "--message-format", "json"] + (["--run-ignored", ri] if ri else []) + ["--"] + args
        p = subprocess.run(cmd, cwd=e2e.WS, env=env, stdout=subprocess.PIPE, stderr=subprocess.PIPE, timeout=60)
        if p.returncode != 0:
            err = p.stderr.decode(errors="replace")
            m = re.search(r"arguments are ([a-z ]+)", err)
            kind = {"duplicated": "duplicated", "missing required argument": "missing", "mutually exclusive": "exclusive", "unsupported": "unsupported"}.get(m.group(1).strip() if m else "", "other:" + err[-120:])
            out = "error:" + kind
        else:
            d = json.loads(p.stdout.decode())
            sel = [nme for nme, tc in d["rust-suites"]["alpha::t_one"]["testcases"].items() if tc["filter-match"]["status"] == "matches"]
            order = [nme for nme, _ in TESTS]
            sel.sort(key=order.index)
            out = ",".join(hx(x) for x in sel) or "."
        return out
    from concurrent.futures import ThreadPoolExecutor
    with ThreadPoolExecutor(max_workers=8) as ex: outs = list(ex.map(one, cases))
    for (args, ri), out in zip(cases, outs):
        dist["e2e:cliargs:" + ("error" if out.startswith("error") else f"selected:{0 if out == '.' else out.count(',') + 1}")] = dist.get("e2e:cliargs:" + ("error" if out.startswith("error") else f"selected:{0 if out == '.' else out.count(',') + 1}"), 0) + 1
        ric = {"only": "o", "all": "a", "default": "d", None: "-"}[ri]
        reqs.append(f"margs {','.join(hx(a) for a in args) or '.'} {ric} {','.join(hx(nme) + ':' + ('1' if ig else '0') for nme, ig in TESTS)}")
        impl.append(out)
    model = vlib.run_driver(reqs)
    violations = []
    for (args, ri), q, i, m in zip(cases, reqs, impl, model):
        if i != m:
            dec = lambda s: s if s.startswith("error") or s == "." else [e2e.unhx(x).decode() for x in s.split(",")]
            violations.append({"what": f"`cargo nextest list{' --run-ignored ' + ri if ri else ''} -- {' '.join(args)}` selects {dec(i)}; merge_test_binary_args + name matching as documented select {dec(m)}",
                               "payload": {"args": args, "run_ignored": ri, "tests": TESTS, "impl": i, "model": m, "request": q}, "kind": "cliargs"})
    return {"e2e_runs": len(cases), "e2e_tests": len(cases) * len(TESTS), "e2e_processes": 0, "dist": dist, "violations": violations, "broken": broken,
            "samples": [{"args": a, "run_ignored": ri, "selected": i} for (a, ri), i in list(zip(cases, impl))[:3]],
            "rule": "stream `cliargs`: the real command line `cargo nextest list [--run-ignored …] -- <0-6 arguments from {names, --exact, --skip, --, --ignored, --include-ignored, unsupported flags}>` on a binary listing 8 tests (two ignored, one named `--exact`); the selected set or the error kind is compared with the Lean model of merge_test_binary_args composed with TestFilterPatterns::resolve / name_match and the ignore rule"}


if __name__ == "__main__":
    import sys
    p = check(int(sys.argv[1]) if len(sys.argv) > 1 else 1, sys.argv[2] if len(sys.argv) > 2 else "quick")
    print(p["e2e_runs"], p["broken"], p["dist"])
    for v in p["violations"]: print("  ", v["what"][:300])
