"""C12 — stop/continue pauses tests and all clocks under every signal interleaving."""
import vlib
from props import common, mix, tim

THM = "NextestModel.Thm.C12"
GEN = ["tables"]
GEN_GROUPS = ["termchild", "delayloop", "drainloop", "mainloop", "respond"]
TRUSTED = ["in-process timer stream p_timer: hooks VerifSleep (PausableSleep on a paused tokio clock) and VerifStopwatch (StopwatchStart around real sleeps; trusted: std Instant is monotonic, each operation happens between the harness's two clock readings around it — Driver/Timer.handleSWatch)",
           "model: Model/Unit (pause/resume of every timer each wait loop owns; illegal transitions are Act.panic exactly where StopwatchStart / PausableSleep panic) and Model/Dispatcher (debouncing)",
           "SIGSTOP semantics, the <= 100 ms wait for acknowledgements and the unbiased select!/StreamMap order are the runtime's: the model treats the order of simultaneously pending requests as a choice (all orders are quantified over), the end-to-end family samples it"]
ASSUMPTIONS = ["PARTIAL: `results unchanged` is proved per request (stop/continue alter pause flags only) and observed end-to-end, not as a trace-erasure theorem; the leak-timeout sleep is not pausable in the code (documented there) and in the model"]


def run(seed, tier, replay=None):
    result = {"evaluations": 0, "distinct_nontrivial": 0, "rule": "", "samples": [], "traces": 0, "dist": {}, "violations": [], "broken": []}
    t = tim.run_timer(seed, tier)
    for k in ("evaluations", "distinct_nontrivial", "traces"): result[k] += t[k]
    result["rule"] = t["rule"]; result["samples"] += t["samples"]; result["dist"].update(t["dist"])
    for k in ("violations", "broken"): result[k] += t[k]
    result["impl_failures"] = t["impl_failures"]
    return mix.merge(result, tim.run_family("stop", seed, tier, 19, 90, jobs=8))

KNOWN_MATCHERS = {}
