"""C05 — filterset expressions denote the documented sets under the documented precedence."""
import json, binascii
import vlib
from props import common

THM = "NextestModel.Thm.C05"
GEN = ["tables"]
GEN_GROUPS = ["setdef"]
TRUSTED = ["model: Model/Syntax (parser), Model/Expr (compile, evaluation, package sets), Model/Glob (glob semantics, documented subset)",
           "regex truth and validity are inputs (asked from the `regex` crate directly, not through nextest)",
           "guppy graph construction; the model's graph is the generator's own adjacency list"]
ASSUMPTIONS = ["globs outside the modelled subset (`**`, nested braces, non-ASCII classes) are skipped by the semantic stream and counted",
               "guppy `depends_on` = reflexive-transitive reachability through all packages (its documentation)"]


def unhex(h):
    return "" if h == "-" else binascii.unhexlify(h).decode("utf-8", "replace")


def run(seed, tier, replay=None):
    n_eval = 2500 if tier == "quick" else 60000
    n_syn = 3000 if tier == "quick" else 80000
    r = common.run_streams([("p_eval", [seed, n_eval]), ("p_syntax", [seed, n_syn])])
    ev, syn = [], []
    for (b, args, idx, req, impl) in r.cases:
        if req.startswith("eval "): ev.append(([b, args, idx], req, impl))
        elif req.startswith("parse "): syn.append(([b, args, idx], req, impl))
    mism_e, _ = common.compare(ev, None)
    mism_s, _ = common.compare_with_oracle(syn)
    violations, detail = [], []
    skipped = 0
    for m in mism_e:
        if m["model"] == "unsupported-glob":
            skipped += 1; continue
        f = m["req"].split(" ")
        violations.append({"what": f"evaluation differs from the denotation: expr={unhex(f[7])!r} default={unhex(f[6])!r} impl={m['impl'][:80]} spec={m['model'][:80]}",
                           "payload": {"stream": m["origin"][:2], "line_index": m["origin"][2], "expr": unhex(f[7]), "default": unhex(f[6]),
                                       "packages": [unhex(x) for x in f[1].split(",")], "workspace": f[2], "edges": f[3], "impl": m["impl"], "spec": m["model"], "request": m["req"],
                                       "explain": "answers are <matches_test bits per query>/<matches_binary trits per query>, or the compile errors"},
                           "kind": "eval"})
    for m in mism_s:
        acc_i = m["impl"].split(" ")[0]; acc_m = m["model"].split(" ")[0]
        inp = unhex(m["req"].split(" ")[1])
        if acc_i == "ok" or acc_m == "ok":
            violations.append({"what": f"well-formed filterset parsed differently from the documented grammar: {inp!r} impl={m['impl'][:160]} spec={m['model'][:160]}",
                               "payload": {"stream": m["origin"][:2], "line_index": m["origin"][2], "input": inp, "impl": m["impl"], "spec": m["model"], "request": m["req"]},
                               "kind": "parse"})
        else:
            detail.append({"input": inp, "impl": m["impl"][:160], "model": m["model"][:160]})
    nt = set(q for (_, q, i) in ev if "/" in i and len(set(i.split("/")[0])) > 1)
    nt |= set(q for (_, q, i) in syn if i.startswith("ok ") and i.count("(") >= 4)
    samples = [f"expr={unhex(q.split(' ')[7])!r} default={unhex(q.split(' ')[6])!r} => {i}" for (_, q, i) in ev[:4]] + \
              [f"{unhex(q.split(' ')[1])!r} => {i[:120]}" for (_, q, i) in syn if i.startswith("ok ")][10:13]
    r.dist["eval:skipped-unsupported-glob"] = skipped
    return {
        "evaluations": len(ev) + len(syn), "distinct_nontrivial": len(nt),
        "rule": "p_eval: random package graphs (2-5 workspace + 0-3 external packages, normal/dev/build edges, paths through non-workspace packages) x expressions over all predicates, matcher kinds (globs from the documented subset, regexes from a pool with truth asked from the regex crate), operators in every spelling x 18 queries (binary x test name x platform) x default filters; p_syntax: grammar/mutated strings compared on the AST; non-trivial = the expression is non-constant over the query set (eval) or has >= 4 nodes (parse)",
        "samples": samples, "traces": len(ev) + len(syn), "dist": r.dist,
        "violations": violations, "detail_mismatches": [], "broken": r.broken, "impl_failures": r.impl_failures,
        "notes": [f"{len(detail)} error-path differences on ill-formed inputs are C20's subject, not counted here", f"{skipped} cases skipped: glob outside the modelled subset"],
    }

KNOWN_MATCHERS = {}
