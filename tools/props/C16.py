"""C16 — captured output is complete, ordered and attributed to the right attempt."""
import vlib
from props import common, mix

THM = "NextestModel.Thm.C16"
GEN = []
TRUSTED = ["model: Model/Capture (accumulator over an abstract pipe); tokio / epoll / kernel pipes are not modelled",
           "the event-log tap records length + xxh64 of every captured stream per attempt; the expected bytes are recomputed from the scripted pattern"]
ASSUMPTIONS = ["the documented normalisations (lossy UTF-8, ANSI and XML-invalid character stripping) are checked on one fixed hostile output (controls, ANSI escape, U+FFFE/U+FFFF, astral planes, private use, invalid UTF-8) against a pinned expected text; the combined capture mode is not exercised"]


def run(seed, tier, replay=None):
    result = {"evaluations": 0, "distinct_nontrivial": 0, "rule": "", "samples": [], "traces": 0, "dist": {}, "violations": [], "broken": []}
    attribution = lambda sc, r: [v for v in mix.mon_junit(sc, r) if v["kind"] in ("junit-attribution", "junit-xml", "junit-text")]
    from props import tim
    r = mix.merge(result, mix.check([mix.mon_output, attribution], seed, tier, 13, 80))
    # output written on SIGTERM, just before a timed-out attempt exits
    return mix.merge(r, tim.run_family("slow", seed, tier, 6, 40, kinds=("capture",)))

KNOWN_MATCHERS = {}
