"""C16 — captured output is complete, ordered and attributed to the right attempt."""
import vlib
from props import common, mix

THM = "NextestModel.Thm.C16"
THM_EXTRA = ["NextestModel.Thm.C16Display"]
CHECK_MODULES = ["NextestModel.Lemmas.Display", "NextestModel.Model.Display"]
GEN = ["tables"]
GEN_GROUPS = ["drainalways", "snapshot"]
TRUSTED = ["model: Model/Capture (accumulator over an abstract pipe); tokio / epoll / kernel pipes are not modelled",
           "model: Model/Display (description heuristics, highlight, trailing newline); strip-ansi-escapes is not modelled (a Piece.strip says which bytes it is handed; in the correspondence its result on every such piece is a table computed with the real crate); bstr lines / lines_with_terminator / trim_end_with / rfind and the regexes ^thread '([^']+)' panicked at  and ^Error:  (multi-line, bytes, Unicode; find_iter non-overlapping) are modelled from their documentation; the failure style's escape sequences are read off the status line",
           "the event-log tap records length + xxh64 of every captured stream per attempt; the expected bytes are recomputed from the scripted pattern"]
ASSUMPTIONS = ["the documented normalisations (lossy UTF-8, ANSI and XML-invalid character stripping) are checked on one fixed hostile output (controls, ANSI escape, U+FFFE/U+FFFF, astral planes, private use, invalid UTF-8) against a pinned expected text; the XML side is proved and corresponded on random texts in C17 (Model/XmlText)"]


def uhb(x):
    try: return bytes.fromhex(x) if x not in ("-", ".", "none") else (None if x == "none" else b"")
    except ValueError: return x


def run_display(seed, tier):
    """p_display: the description heuristics and what the display reporter writes, against Model/Display."""
    n = 250 if tier == "quick" else 30000
    r = common.run_streams([("p_display", [seed, n, vlib.BUILD + "/display-tmp"])])
    items = [([b, args, idx], req, impl) for (b, args, idx, req, impl) in r.cases]
    mism, _ = common.compare(items, None)
    violations, detail = [], []
    for m in mism:
        f = m["req"].split(" ")
        if "<not-in-strip-table>".encode().hex() in m["model"]:
            r.broken.append(f"p_display: a piece handed to the ANSI stripper is missing from the table of request {m['req'][:120]}")
            continue
        if f[0] in ("hext", "hlend"):
            # which part is highlighted is not what the property is about: a disagreement here breaks the correspondence only
            detail.append({"stream": m["origin"][:2], "line_index": m["origin"][2], "request": m["req"][:400], "impl": m["impl"], "model": m["model"],
                           "note": "description heuristics / highlight_end differ from Model/Display"})
            continue
        if f[0] == "hext":
            what = f"the description picked from a failing test's output differs from the documented heuristics: stdout={uhb(f[1])!r} stderr={uhb(f[2])!r}: nextest picks {m['impl']}, the model {m['model']} (kind:start:bytes)"
        elif f[0] == "hlend":
            what = f"highlight_end({uhb(f[1])!r}) = {m['impl']}, expected {m['model']} (the second newline, or the length)"
        else:
            io, ie = (m["impl"].split(";") + ["?"])[:2]; mo, me = (m["model"].split(";") + ["?"])[:2]
            which, got, exp, raw = ("stdout", io, mo, f[2]) if io != mo else ("stderr", ie, me, f[3])
            # the property itself on the implementation: with every escape sequence (the test's and nextest's) stripped, what is shown
            # must be the captured bytes, a final newline ensured or added
            shown, plus_nl, ensured_nl = f[7].split("/")[0 if which == "stdout" else 1].split(":")
            if got != "panic" and (raw in ("-",) or shown in (plus_nl, ensured_nl)):
                detail.append({"stream": m["origin"][:2], "line_index": m["origin"][2], "request": m["req"][:400], "impl": m["impl"], "model": m["model"],
                               "note": f"the bytes shown for {which} are the captured ones; only nextest's own colour sequences / the highlighted part differ from Model/Display"})
                continue
            what = (f"what nextest shows for a failing test's {which} is not the captured bytes (colour {'on' if f[1] == 'c' else 'off'}): captured {uhb(raw)!r}, shown {uhb(got)!r}, "
                    f"expected {'a panic (slice out of range)' if exp == 'panic' else repr(uhb(exp))}")
        violations.append({"what": what, "payload": {"stream": m["origin"][:2], "line_index": m["origin"][2], "request": m["req"], "impl": m["impl"], "spec": m["model"]}, "kind": "display"})
    nt = {q for _, q, i in items if (q.startswith("hext ") and i != "none") or (q.startswith("show c ") and "1b5b" in i)}
    return {"evaluations": len(items), "distinct_nontrivial": len(nt),
            "rule": "p_display: a failing test with random stdout / stderr (0-9 pieces: panic-message and Error: lines in all positions and overlaps, should-panic notes, every kind of line ending and Unicode white space, escape sequences, invalid UTF-8, either stream absent, both equal) — TestOutputErrorSlice::heuristic_extract and highlight_end called directly, and the real Reporter driven colour on and off with the two displayed regions cut out of its buffer; compared with Model/Display (the ANSI stripper's result on every piece it can be handed is given to the model as a table; the failure style is read off the status line); non-trivial = a description is found, or a highlighted region",
            "samples": [f"{q[:160]}  =>  {i[:120]}" for (_, q, i) in items[:4]], "traces": len(items), "dist": {"display:" + k: v for k, v in r.dist.items()},
            "violations": violations, "broken": r.broken, "impl_failures": r.impl_failures, "detail_mismatches": detail}


def run(seed, tier, replay=None):
    result = {"evaluations": 0, "distinct_nontrivial": 0, "rule": "", "samples": [], "traces": 0, "dist": {}, "violations": [], "broken": []}
    attribution = lambda sc, r: [v for v in mix.mon_junit(sc, r) if v["kind"] in ("junit-attribution", "junit-xml", "junit-text")]
    from props import tim
    r = mix.merge(result, mix.check([mix.mon_output, attribution], seed, tier, 15, 80))
    # output written on SIGTERM, just before a timed-out attempt exits
    r = mix.merge(r, tim.run_family("slow", seed, tier, 6, 40, kinds=("capture",)))
    d = run_display(seed, tier)
    for k in ("evaluations", "distinct_nontrivial", "traces"): r[k] = r.get(k, 0) + d[k]
    r["rule"] = (r.get("rule", "") + " || " + d["rule"]).strip(" |"); r["samples"] = r.get("samples", []) + d["samples"]; r.setdefault("dist", {}).update(d["dist"])
    for k in ("violations", "broken", "impl_failures", "detail_mismatches"): r[k] = r.get(k, []) + d.get(k, [])
    return r

KNOWN_MATCHERS = {}
