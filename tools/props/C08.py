"""C08 — concurrency never exceeds thread or group limits; dispatch follows priority."""
import vlib
from props import common, mix, sched

THM = "NextestModel.Thm.C08"
GEN = ["tables"]
GEN_GROUPS = ["weights"]
CHECK_MODULES = ["NextestModel.Lemmas.Sched", "NextestModel.Model.Sched", "NextestModel.Model.Priority"]
TRUSTED = ["model: Model/Sched, read from future-queue 0.4.0's source and corresponded against the real crate (third-party code: modelled and corresponded, not assumed)",
           "that an OS process does not outlive its future is C11's group-kill argument plus the end-to-end engine"]
ASSUMPTIONS = ["weights are threads-required computed against the effective test-thread count; that wiring (imp.rs) is exercised end-to-end only"]
KINDS = ("global-weight", "group-weight", "weight-accounting")


def run_p(seed, tier, replay=None):
    r, items, model = sched.run_sched(seed, tier)
    violations = []
    nt = set()
    for (o, q, i), m in zip(items, model):
        T, gmax, its, ops = sched.parse_req(q)
        if len(its) >= 3 and len(ops) >= 3: nt.add(q)
        mon = sched.monitors(q, i)
        hit = [(k, v) for k, v in mon.items() if k in KINDS]
        if hit:
            k, (step, msg) = hit[0]
            violations.append({"what": f"{k}: {msg} (after ops {','.join(ops[:step + 1])})",
                               "payload": {"stream": o[:2], "line_index": o[2], "test_threads": T, "group_max_threads": gmax, "items(id:weight:group)": q.split(' ')[3], "ops": ops[:step + 1], "what": msg, "request": q, "impl": i}, "kind": k})
            continue
        # correspondence on start order and weights (what the theorems are about)
        si, sm = i.split(" ## ")[:-1], m.split(" ## ")[:-1]
        for k, (a, b) in enumerate(zip(si, sm)):
            ida = [x.split("@")[0] for x in a.split("|")[0].split(",") if x]; idb = [x.split("@")[0] for x in b.split("|")[0].split(",") if x]
            if ida != idb or a.split("|")[1] != b.split("|")[1]:
                violations.append({"what": f"scheduler step {k} differs from the model: impl={a} model={b} (ops {','.join(ops[:k + 1])})",
                                   "payload": {"stream": o[:2], "line_index": o[2], "request": q, "step": k, "impl": a, "model": b}, "kind": "step"})
                break
    # dispatch order (priority queue)
    rp = common.run_streams([("p_prio", [seed, 400 if tier == "quick" else 8000, vlib.BUILD + "/prio-tmp"])])
    pitems = [([b, args, idx], req, impl) for (b, args, idx, req, impl) in rp.cases if req.startswith("prio ")]
    pm, _ = common.compare(pitems, None)
    for m in pm:
        violations.append({"what": f"dispatch order differs from 'descending priority, then binary id, then test name': impl={m['impl'][:200]} spec={m['model'][:200]}",
                           "payload": {"stream": m["origin"][:2], "line_index": m["origin"][2], "request": m["req"], "impl": m["impl"], "spec": m["model"],
                                       "explain": "prio <binaries id:tests;…> <priority overrides kind:arg:priority+100 in file order>  =>  queue order binary/test,…"}, "kind": "priority"})
    for (_, q, i) in pitems:
        if i.count(",") >= 3: nt.add(q)
    items = items + pitems
    for k, v in rp.dist.items(): r.dist["prio:" + k] = v
    r.broken += rp.broken
    samples = [f"{q}  =>  {i}" for (_, q, i) in items[:3]] + [f"{q[:300]}  =>  {i[:300]}" for (_, q, i) in pitems[:2]]
    return {
        "evaluations": len(items), "distinct_nontrivial": len(nt),
        "rule": "p_sched drives the real future_queue_grouped by hand: test-threads 1-6, 0-2 groups with max-threads 1-4, 0-10 items with weights from {1,2,3,8} (uniform per group in 2/3 of the cases), every future completes at a random moment chosen by the generator (any completion order); after every poll the set of newly created futures, their slots and current_global_weight are recorded; monitors recompute the weight sums from the history; p_prio builds test lists of 1-4 binaries with up to 30 tests each and 0-3 priority overrides and compares TestList::to_priority_queue with the stable descending sort; non-trivial = at least 3 items and 3 operations (scheduler) or at least 4 queued tests (priority)",
        "samples": samples, "traces": len(items), "dist": r.dist,
        "violations": violations, "broken": r.broken, "impl_failures": r.impl_failures,
    }


def run(seed, tier, replay=None):
    return mix.merge(run_p(seed, tier, replay), mix.check([mix.mon_concurrency], seed, tier))

KNOWN_MATCHERS = {}
