"""C07 — failed tests are retried as configured: count, stop on success, backoff."""
import vlib
from props import common, mix

THM = "NextestModel.Thm.C07"
THM_EXTRA = ["NextestModel.Thm.C07Unit"]
GEN = ["tables"]
GEN_GROUPS = ["attemptloop"]
CHECK_MODULES = ["NextestModel.Lemmas.Unit", "NextestModel.Model.Unit", "NextestModel.Lemmas.Attempts", "NextestModel.Model.Attempts"]
TRUSTED = ["model: Model/Classify (BackoffIter over exact nanoseconds); f64 rounding of Duration::mul_f64 tolerated to 2 ns; the rand jitter sample is not modelled (bounds are checked on the implementation's values)"]
ASSUMPTIONS = ["PARTIAL: the attempt loop itself (retry after each failed attempt until a pass or N+1 attempts, never after a pass, never once cancelled, delay respected with pauses excluded) is executor behaviour: its text is read segment by segment on every run (table group attemptloop: attempt_loop_is_as_modelled — the loop is exactly the model's clauses, nothing else in it) and it is exercised end-to-end (families mix and cancel: the model is the acceptor of every real history); --retries replacing every policy is C06.cli_retries_wins plus the end-to-end engine"]


def run_p(seed, tier, replay=None):
    n = 1500 if tier == "quick" else 120000
    r = common.run_streams([("p_exec", [seed, n])])
    items = [([b, args, idx], req, impl) for (b, args, idx, req, impl) in r.cases if req.startswith("backoff ")]
    model = vlib.run_driver([q for _, q, _ in items]) if items else []
    violations = []
    nt = set()
    for (o, q, i), m in zip(items, model):
        f = q.split(" ")
        jitter = f[4] == "1"
        if i == "panic":
            violations.append({"what": f"backoff {q}: the delay iterator of run_test_instance panics (count {f[2]}): the unit dies between attempts, the test is neither retried to its bound nor ever reported finished",
                               "payload": {"stream": o[:2], "line_index": o[2], "request": q, "impl": i, "spec": m[:200]}, "kind": "backoff-panic"})
            continue
        a = [] if i == "." else [int(x) for x in i.split(",")]
        b = [] if m == "." else [int(x) for x in m.split(",")]
        if len(b) >= 2: nt.add(q)
        bad = None
        if len(a) != len(b): bad = f"{len(a)} delays for count {f[2]}"
        else:
            for k, (x, y) in enumerate(zip(a, b)):
                if not jitter and abs(x - y) > 2: bad = f"delay before retry {k + 1} is {x} ns, documented {y} ns"; break
                if jitter and not (y / 2 - 2 <= x <= y + 2) : bad = f"jittered delay before retry {k + 1} is {x} ns, outside ({y}/2, {y}]"; break
                if jitter and y > 10 and x * 2 <= y - 4: bad = f"jittered delay {x} ns is not more than half of {y} ns"; break
        if bad:
            violations.append({"what": f"backoff {q}: {bad}", "payload": {"stream": o[:2], "line_index": o[2], "request": q, "impl": i, "spec": m,
                               "explain": "backoff <f|e> <count> <delay ns> <jitter> <max-delay ns>  =>  delays in ns"}, "kind": "backoff"})
    samples = [f"{q}  =>  {i}" for (_, q, i) in items[:5]]
    return {
        "evaluations": len(items), "distinct_nontrivial": len(nt),
        "rule": "random retry policies: fixed / exponential, count 0-8 (and five long chains of 80-1100 retries under a max-delay), delays from 0 to 60 s, with and without max-delay (1-100 x the base), with and without jitter; the real BackoffIter's delays are compared with the closed form (exactly up to 2 ns without jitter, within (d/2, d] with jitter); non-trivial = at least 2 delays",
        "samples": samples, "traces": len(items), "dist": r.dist,
        "violations": violations, "broken": r.broken, "impl_failures": r.impl_failures,
    }


def run(seed, tier, replay=None):
    from props import tim
    r = mix.merge(run_p(seed, tier, replay), mix.check([mix.mon_retries, mix.mon_attempt_model], seed, tier))
    return mix.merge(r, tim.run_family("cancel", seed, tier, 8, 28))

KNOWN_MATCHERS = {}
