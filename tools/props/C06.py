"""C06 — per-test settings resolve by the documented precedence, setting by setting."""
import json, binascii
import vlib
from props import common

THM = "NextestModel.Thm.C06"
GEN = ["tables"]
GEN_GROUPS = ["retries"]
TRUSTED = ["model: Model/Settings (extend_reverse/reverse/chain bookkeeping, TestSettings::new, profile-level getters)",
           "platform-spec truth (target-spec) and filter truth (C05) are inputs computed from fixed tables by the generator",
           "the `config` crate's key-wise layering of files is modelled by profileLevel and validated by the correspondence only"]
ASSUMPTIONS = ["--retries/NEXTEST_RETRIES (executor `force_retries`) is modelled (cli_retries_wins) but exercised end-to-end only by the retry property's runs",
               "tool configs do not reference test groups (they would have to define their own @tool groups)"]


def run_p(seed, tier, replay=None):
    n = 500 if tier == "quick" else 40000
    r = common.run_streams([("p_settings", [seed, n, vlib.BUILD + "/settings-tmp"])])
    items = [([b, args, idx], req, impl) for (b, args, idx, req, impl) in r.cases]
    mism, _ = common.compare(items, None)
    names = ["priority", "threads-required", "run-extra-args", "retries", "slow-timeout", "leak-timeout", "test-group", "success-output", "failure-output", "junit.store-success-output", "junit.store-failure-output"]
    violations = []
    for m in mism:
        iv, mv = m["impl"].split(","), m["model"].split(",")
        bad = [f"{names[k]}: impl={a} spec={b}" for k, (a, b) in enumerate(zip(iv, mv)) if a != b]
        violations.append({"what": f"resolved settings differ from the documented precedence: {'; '.join(bad)} for {m['req'][:200]}",
                           "payload": {"stream": m["origin"][:2], "line_index": m["origin"][2], "request": m["req"], "impl": m["impl"], "spec": m["model"], "differences": bad,
                                       "explain": "settings <profile hex> <host-platform test?> <cli retries> <built-in values> <files lowest priority first, | separated; profile~level~overrides; override = hostEval,hostTestEval,targetEval,filterOk:field=value,…>; fields 0..10 = " + ", ".join(names)},
                           "kind": "settings"})
    nt = set(q for (_, q, i) in items if q.count("+") >= 2 and q.count("|") >= 1)
    samples = [f"{q[:300]}  =>  {i}" for (_, q, i) in items[:3]]
    return {
        "evaluations": len(items), "distinct_nontrivial": len(nt),
        "rule": "p_settings writes a repository config and 0-3 tool configs as TOML (profiles default/ci/p2 in random subsets per file, 0-4 overrides each with platform strings/tables from a pool of 7 specs with known truth on an x86_64-linux host and aarch64-darwin target, filters from a pool of 8, random subsets of the 11 settings, profile-level values) and resolves 4 queries (profile, host/target binary, with/without --target, test name) per config through the public API; non-trivial = at least 2 config files and at least 3 overrides in play",
        "samples": samples, "traces": len(items), "dist": r.dist,
        "violations": violations, "broken": r.broken, "impl_failures": r.impl_failures,
    }

def run(seed, tier, replay=None):
    # "the command-line or environment value where one exists (e.g. --retries)": the wiring of the forced value through the runner
    # is end-to-end only — the attempts the scripted processes record against the policy in force (family mix, incl. --retries 0
    # against a profile and an override that ask for retries)
    from props import mix
    attempts = lambda sc, r: [v for v in mix.mon_retries(sc, r) if v["kind"] == "attempt-count"]
    return mix.merge(run_p(seed, tier, replay), mix.check([attempts], seed, tier, 15, 40))

KNOWN_MATCHERS = {}
