"""C14 — slot numbers are unique among concurrent tests, stable across retries, compact."""
import vlib
from props import common, mix, sched

THM = "NextestModel.Thm.C14"
THM_EXTRA = ["NextestModel.Thm.C14Groups"]
GEN = ["tables"]
GEN_GROUPS = ["spawn"]
TRUSTED = ["model: Model/Sched, read from future-queue 0.4.0's source and corresponded against the real crate (third-party code: modelled and corresponded, not assumed)",
           "that an OS process does not outlive its future is C11's group-kill argument plus the end-to-end engine"]
ASSUMPTIONS = ["that every attempt of a test sees the same FutureQueueContext (created once per future) and that the slots reach the process environment is exercised end-to-end only"]
KINDS = ("slot-unique", "slot-least", "slot-bound", "group-slot")


def run_p(seed, tier, replay=None):
    r, items, model = sched.run_sched(seed, tier)
    violations = []
    nt = set()
    for (o, q, i), m in zip(items, model):
        T, gmax, its, ops = sched.parse_req(q)
        if len(its) >= 3 and len(ops) >= 3: nt.add(q)
        mon = sched.monitors(q, i)
        hit = [(k, v) for k, v in mon.items() if k in KINDS]
        if hit:
            k, (step, msg) = hit[0]
            violations.append({"what": f"{k}: {msg} (after ops {','.join(ops[:step + 1])})",
                               "payload": {"stream": o[:2], "line_index": o[2], "test_threads": T, "group_max_threads": gmax, "items(id:weight:group)": q.split(' ')[3], "ops": ops[:step + 1], "what": msg, "request": q, "impl": i}, "kind": k})
            continue
        # correspondence on start order and weights (what the theorems are about)
        si, sm = i.split(" ## ")[:-1], m.split(" ## ")[:-1]
        for k, (a, b) in enumerate(zip(si, sm)):
            if a.split("|")[0] != b.split("|")[0]:
                violations.append({"what": f"scheduler step {k} differs from the model: impl={a} model={b} (ops {','.join(ops[:k + 1])})",
                                   "payload": {"stream": o[:2], "line_index": o[2], "request": q, "step": k, "impl": a, "model": b}, "kind": "step"})
                break
    samples = [f"{q}  =>  {i}" for (_, q, i) in items[:3]]
    return {
        "evaluations": len(items), "distinct_nontrivial": len(nt),
        "rule": "p_sched drives the real future_queue_grouped by hand: test-threads 1-6, 0-2 groups with max-threads 1-4, 0-10 items with weights from {1,2,3,8} (uniform per group in 2/3 of the cases), every future completes at a random moment chosen by the generator (any completion order); after every poll the set of newly created futures, their slots and current_global_weight are recorded; monitors recompute the weight sums from the history; non-trivial = at least 3 items and 3 operations",
        "samples": samples, "traces": len(items), "dist": r.dist,
        "violations": violations, "broken": r.broken, "impl_failures": r.impl_failures,
    }


def run_threads(seed, tier):
    """the limits the slots stay below: test-threads / a group's max-threads as computed from the command line and from TOML,
    incl. negative values (relative to the CPU count) far below zero — never below 1 (a limit of 0 means "unbounded" to the
    scheduler)"""
    rp = common.run_streams([("p_prio", [seed, 5, vlib.BUILD + "/prio-tmp"])])
    items = [([b, args, idx], req, impl) for (b, args, idx, req, impl) in rp.cases if req.startswith("threads ")]
    mism, _ = common.compare(items, None)
    violations = []
    for m in mism:
        f = m["req"].split(" ")
        violations.append({"what": f"thread count for the configured value {f[1]} on {f[2]} CPUs: nextest computes {m['impl']}, documented {m['model']} (a positive count is itself, a negative one counts back from the number of CPUs but never below 1, 0 is rejected)",
                           "payload": {"stream": m["origin"][:2], "line_index": m["origin"][2], "request": m["req"], "impl": m["impl"], "spec": m["model"]}, "kind": "threads"})
    return {"evaluations": len(items), "distinct_nontrivial": len(items), "traces": len(items), "violations": violations, "broken": rp.broken,
            "rule": "thread counts: 11 configured values (positive, negative within and beyond the CPU count, 0) through TestThreads::from_str and through TOML (profile test-threads and a group's max-threads) against Model/Priority.threadCount"}


def run(seed, tier, replay=None):
    a = run_p(seed, tier, replay); t = run_threads(seed, tier)
    for k in ("evaluations", "distinct_nontrivial", "traces"): a[k] = a.get(k, 0) + t[k]
    a["rule"] += " || " + t["rule"]
    for k in ("violations", "broken"): a[k] = a.get(k, []) + t[k]
    r = mix.merge(a, mix.check([mix.mon_concurrency, mix.mon_least_free], seed, tier))
    # "slots are passed in NEXTEST_TEST_GLOBAL_SLOT / NEXTEST_TEST_GROUP / NEXTEST_TEST_GROUP_SLOT": also when setup scripts write
    # look-alike keys (family scr; only the slot-variable monitor counts here)
    from props import scr
    part = scr.check(seed, tier, 4, 30)
    part["violations"] = [v for v in part["violations"] if v.get("kind") == "slot-env"]
    return mix.merge(r, part)

KNOWN_MATCHERS = {}
