"""Shared handling of the dispatcher stepping stream (p_disp) for C01, C02, C10, C17."""
import vlib
from props import common

SEV = {"None": 0, "Some(SetupScriptFailure)": 1, "Some(TestFailure)": 2, "Some(ReportError)": 3, "Some(Signal)": 4, "Some(Interrupt)": 5, "Some(SecondSignal)": 6}
FIELDS = ["response", "reply", "emitted", "cancel", "stats", "running", "delivered", "broadcast"]


def split_steps(out):
    steps = out.split(" ## ")
    final = None
    if steps and steps[-1].startswith("FINAL "):
        final = steps.pop()[6:]
    return [s.split("|") if s != "panic" else ["panic"] for s in steps], final


def run_disp(seed, tier, n_quick=1500, n_thorough=40000):
    n = n_quick if tier == "quick" else n_thorough
    r = common.run_streams([("p_disp", [seed, n, vlib.BUILD + "/disp-tmp"])])
    items = [([b, args, idx], req, impl) for (b, args, idx, req, impl) in r.cases]
    model = vlib.run_driver([q for _, q, _ in items]) if items else []
    return r, items, model


def first_diff(req, impl, model, fields):
    """First step at which impl and model differ on one of `fields`; returns (k, field, impl, model, events prefix)."""
    si, fi = split_steps(impl)
    sm, fm = split_steps(model)
    evs = req.split(" ")[3].split(",")
    for k, (a, b) in enumerate(zip(si, sm)):
        if a == ["panic"] or b == ["panic"]:
            if a != b and "panic" in fields:
                return (k, "panic", "|".join(a), "|".join(b), evs[:k + 1])
            if a != b: return None
            continue
        for f in fields:
            if f == "emitted:start-cancel":
                # only the emitted events a start/cancel property speaks about
                keep = lambda s: ";;".join(e for e in s.split(";;") if e.split("(")[0] in ("TestStarted", "TestRetryStarted", "SetupScriptStarted", "RunBeginCancel", "RunBeginKill"))
                j = FIELDS.index("emitted")
                if keep(a[j]) != keep(b[j]):
                    return (k, "emitted", keep(a[j]), keep(b[j]), evs[:k + 1])
            elif f in FIELDS:
                j = FIELDS.index(f)
                if a[j] != b[j]:
                    return (k, f, a[j], b[j], evs[:k + 1])
    if "final" in fields and fi != fm:
        return (len(si), "final", fi, fm, evs)
    if len(si) != len(sm) and "panic" in fields:
        return (min(len(si), len(sm)), "length", str(len(si)), str(len(sm)), evs)
    return None
