"""End-to-end scenario family "scr": setup scripts (which run, in which order, serially and before any test,
whose variables reach which tests, what a failing script or a malformed / reserved env line does), run by
the real cargo-nextest; the expectation is computed by the Lean model (`scripts` driver request) from the
scenario and the rule truth values; the observation comes from the scripted processes' own records."""
import os, random, re
import vlib, e2e
from e2e import hx
from props import mix

BINS = [("t_one", "alpha"), ("t_two", "alpha"), ("t_three", "beta")]
NAMES = ["aa::x", "ab::y", "bb::z", "ca", "unit::deep::q"]
# (expression, truth given (bin, pkg, name))
FILTERS = [
    (None, lambda b, p, n: True),
    ("all()", lambda b, p, n: True),
    ("none()", lambda b, p, n: False),
    ("binary(t_one)", lambda b, p, n: b == "t_one"),
    ("binary(t_two) | binary(t_three)", lambda b, p, n: b != "t_one"),
    ("package(beta)", lambda b, p, n: p == "beta"),
    ("package(alpha) & test(a)", lambda b, p, n: p == "alpha" and "a" in n),
    ("test(=ca)", lambda b, p, n: n == "ca"),
    ("test(/^a[ab]::/)", lambda b, p, n: n.startswith("aa::") or n.startswith("ab::")),
    ("not test(::)", lambda b, p, n: "::" not in n),
]
# all tests here are target-platform tests of a host == target build: host_eval && target_eval
PLATFORMS = [
    (None, True), ("'cfg(unix)'", True), ("'cfg(windows)'", False),
    ('{ host = "cfg(unix)", target = "cfg(windows)" }', False), ('{ host = "cfg(unix)", target = "cfg(unix)" }', True),
    ('{ host = "cfg(windows)" }', False),
]
KEYS = ["VT_SHARED", "VT_DUP", "VT_EQ", "VT_K_s1", "VT_K_s2", "VT_K_s3", "NEXTEST_PROFILE", "NEXTEST_EXECUTION_MODE", "NEXTEST_TEST_GROUP", "NEXTEST_TEST_GROUP_SLOT"]
# what a test sees for a key no script provides
# behaviours that make the script a failed one: non-zero exit, death by signal, overrunning its slow-timeout (whatever its exit status then)
FAILING = ("fail", "timeout", "timeout0", "sigfail")
BASELINE = {"NEXTEST_PROFILE": "default", "NEXTEST_EXECUTION_MODE": "process-per-test", "NEXTEST_TEST_GROUP": "@global", "NEXTEST_TEST_GROUP_SLOT": "none"}


def gen_scenario(seed, k):
    rng = random.Random(seed * 7919 + k)
    sc = e2e.Scenario(f"scr{k}")
    nt = rng.randrange(2, 6)
    tests = []
    used = set()
    while len(tests) < nt:
        b, p = rng.choice(BINS); n = rng.choice(NAMES)
        if (b, n) in used: continue
        used.add((b, n))
        ignored = rng.random() < 0.15
        tests.append({"bin": b, "pkg": p, "name": n, "ignored": ignored})
        sc.test(b, n, ["sleep:20", "exit:0"], ignored=ignored)
    cli_filter = rng.choice([None, None, "binary(t_one)", "not package(beta)", "test(a)"])
    cli_truth = {None: lambda b, p, n: True, "binary(t_one)": lambda b, p, n: b == "t_one", "not package(beta)": lambda b, p, n: p != "beta", "test(a)": lambda b, p, n: "a" in n}[cli_filter]
    for t in tests: t["selected"] = (not t["ignored"]) and cli_truth(t["bin"], t["pkg"], t["name"])
    defs = rng.sample(["s1", "s2", "s3"], rng.randrange(1, 4))
    if k == 0:
        defs = ["s2", "s1"]
    if k == 2:
        defs = ["s1", "s2"]
    if k in (3, 4):
        defs = ["s2", "s1"]
    scripts = {}
    for s in defs:
        beh = rng.choice(["ok", "ok", "ok", "ok", "slowok", "fail", "noeq", "reserved", "empty", "leakok", "timeout", "timeout0", "sigfail"])
        if k == 0: beh = "ok"
        # corpus: a script that overruns its slow-timeout is a failed script (also when it exits 0 on the SIGTERM it is sent): nothing after it runs
        if k == 3: beh = "timeout" if s == defs[0] else "ok"
        if k == 4: beh = "timeout0" if s == defs[0] else "ok"
        if k == 2: beh = "leakok" if s == "s1" else "ok"     # corpus: a script that succeeds but leaks a handle still provides its variables
        lines = [f"VT_K_{s}={s}v", f"VT_SHARED=from-{s}"]
        if rng.random() < 0.4: lines += ["VT_DUP=first", "VT_DUP=second-" + s]
        if rng.random() < 0.4: lines += [f"VT_EQ=a=b={s}"]
        # keys that only *look* reserved or shared once trimmed: accepted verbatim, so they must not touch the real names
        if beh in ("ok", "slowok", "leakok") and rng.random() < 0.35: lines.insert(rng.randrange(len(lines) + 1), rng.choice(["  NEXTEST_PROFILE=hijacked", "\tNEXTEST_EXECUTION_MODE=hijacked", " VT_SHARED=indented", "export NEXTEST_PROFILE=hijacked", "VT_SHARED =with-blank",
                                                                                                                    "  NEXTEST_TEST_GROUP=hijacked", "\tNEXTEST_TEST_GROUP_SLOT=7", " NEXTEST_TEST_GLOBAL_SLOT=99"]))
        # corpus: the slot variables nextest hands to a test cannot be overwritten by a script, however the key is spelt
        if k == 0 and s == "s1": lines += ["  NEXTEST_TEST_GROUP=hijacked", " NEXTEST_TEST_GLOBAL_SLOT=99", "\tNEXTEST_TEST_GROUP_SLOT=7"]
        acts = []
        if beh == "slowok": acts.append("sleep:250")
        # exits 0 while a descendant keeps the captured stdout open well past the leak timeout: `SETUP LEAK`, a success
        if beh == "leakok": acts.append("child:1500")
        if beh == "noeq": lines.insert(rng.randrange(len(lines) + 1), "this line has no equals sign")
        if beh == "reserved": lines.insert(rng.randrange(len(lines) + 1), rng.choice(["NEXTEST_FOO=1", "NEXTEST=2", "NEXTESTX=3"]))
        if beh == "empty": lines = []
        acts += ["env:" + hx(l) for l in lines]
        if beh == "timeout": acts.append("hang")
        if beh == "timeout0": acts += ["onsig:15:0:0", "hang"]
        if beh == "sigfail": acts.append("kill:" + str(rng.choice([9, 6, 15])))
        acts.append("exit:" + (str(rng.choice([1, 3, 101])) if beh == "fail" else "0"))
        scripts[s] = {"beh": beh, "lines": lines}
        sc.scripts.append((s, acts))
    nr = rng.randrange(1, 4)
    rules = []
    for _ in range(nr):
        fe, ff = rng.choice(FILTERS); pe, pv = rng.choice(PLATFORMS) if rng.random() < 0.5 else (None, True)
        if fe is None and pe is None: fe = "all()"   # nextest rejects a rule with neither
        setup = rng.sample(defs, rng.randrange(1, len(defs) + 1))
        rules.append({"filter": fe, "platform": pe, "setup": setup, "truth": [bool(pv and ff(t["bin"], t["pkg"], t["name"])) for t in tests]})
    if k == 0:
        rules = [{"filter": "binary(t_one)", "platform": None, "setup": ["s1", "s2"], "truth": [t["bin"] == "t_one" for t in tests]},
                 {"filter": "all()", "platform": None, "setup": ["s1"], "truth": [True for t in tests]}]
    if k in (2, 3, 4):
        rules = [{"filter": "all()", "platform": None, "setup": ["s1", "s2"], "truth": [True for t in tests]}]
    if k == 1:
        # corpus: one script listed by two rules with different filters; a test matched only by the second rule must still get the variables
        tests[:] = [{"bin": "t_one", "pkg": "alpha", "name": "aa::x", "ignored": False, "selected": True}, {"bin": "t_three", "pkg": "beta", "name": "bb::z", "ignored": False, "selected": True}]
        sc.tests = []; sc.scripts = []
        for t in tests: sc.test(t["bin"], t["name"], ["sleep:20", "exit:0"])
        defs = ["s1"]; scripts = {"s1": {"beh": "ok", "lines": ["VT_K_s1=s1v", "VT_SHARED=from-s1"]}}
        sc.scripts.append(("s1", ["env:" + hx(l) for l in scripts["s1"]["lines"]] + ["exit:0"]))
        rules = [{"filter": "binary(t_one)", "platform": None, "setup": ["s1"], "truth": [True, False]}, {"filter": "package(beta)", "platform": None, "setup": ["s1"], "truth": [False, True]}]
        cli_filter = None
    cfg = 'experimental = ["setup-scripts"]\n'
    for s in defs:
        cfg += f'[script.{s}]\ncommand = ["@VSCRIPT@", "{s}"]\n'
        if scripts[s]["beh"] == "leakok": cfg += 'capture-stdout = true\nleak-timeout = "200ms"\n'
        if scripts[s]["beh"] in ("timeout", "timeout0"): cfg += 'slow-timeout = { period = "300ms", terminate-after = 1, grace-period = "400ms" }\n'
    cfg += '[profile.default]\nfail-fast = false\nstatus-level = "all"\nfinal-status-level = "all"\ntest-threads = 4\n'
    for r in rules:
        cfg += "[[profile.default.scripts]]\n"
        if r["filter"] is not None: cfg += f"filter = '{r['filter']}'\n"
        if r["platform"] is not None: cfg += f"platform = {r['platform']}\n"
        cfg += "setup = [" + ", ".join(f'"{s}"' for s in r["setup"]) + "]\n"
    sc.config = cfg
    sc.cli = (["-E", cli_filter] if cli_filter else [])
    sc.env = {}
    sc.timeout_s = 60
    sc.meta = {"tests": tests, "defs": defs, "scripts": scripts, "rules": rules, "cli_filter": cli_filter}
    return sc


def model_request(sc):
    m = sc.meta
    defs = ",".join(m["defs"])
    rules = ";".join("+".join(r["setup"]) + ":" + ("".join("1" if b else "0" for b in r["truth"]) or "_") for r in m["rules"])
    sel = ",".join(str(i) for i, t in enumerate(m["tests"]) if t["selected"]) or "."
    ran = ";".join(s + "=" + ("+".join(hx(l) for l in m["scripts"][s]["lines"]) or ".") for s in m["defs"] if m["scripts"][s]["beh"] not in FAILING) or "."
    keys = ",".join(hx(k) for k in KEYS)
    return f"scripts {defs} {rules} {sel} {len(m['tests'])} {ran} {keys}"


def parse_model(out):
    f = dict(x.split("=", 1) for x in out.split(" "))
    en = [] if f["enabled"] == "." else f["enabled"].split(",")
    parse = {} if f["parse"] == "." else dict(x.split(":") for x in f["parse"].split(","))
    env = []
    for part in f["env"].split(";"):
        t, _, vs = part.partition(":")
        env.append([None if v == "~" else e2e.unhx(v).decode() for v in vs.split(",")])
    return en, parse, env


def monitors(sc, r, model_out):
    out = []
    V = lambda kind, what: out.append(mix.viol(sc, r, kind, what, {"model_request": model_request(sc), "model": model_out}))
    if r.hung: V("hang", "nextest did not exit"); return out
    m = sc.meta
    try:
        en, parse, env = parse_model(model_out)
    except Exception as e:
        return [dict(mix.viol(sc, r, "model", f"unparsable model answer {model_out!r}: {e}"), machinery=True)]
    sprocs = sorted([p for p in r.procs if p.get("bin") == "vscript" and p.get("start")], key=lambda p: p["start"])
    tprocs = [p for p in r.procs if p.get("start") and not p.get("child") and "--exact" in p.get("argv", [])]
    sel = [t for t in m["tests"] if t["selected"]]
    # expected execution: the enabled scripts in definition order, up to and including the first that fails
    exp_run = []
    failed = None
    for s in en:
        exp_run.append(s)
        if m["scripts"][s]["beh"] in FAILING: failed = s; break
    if not sel: exp_run = []; failed = None
    got_run = [(p.get("argv") or ["?"])[0] for p in sprocs]
    if got_run != exp_run:
        V("which-scripts", f"setup scripts executed {got_run}; the rules, platforms and selected tests demand {exp_run} (definition order {m['defs']}, enabled {en}, first failing {failed})")
    # serial, and all before any test
    for a, b in zip(sprocs, sprocs[1:]):
        if not a.get("end") or b["start"] < a["end"][1]: V("serial", f"script {b['argv']} started before script {a['argv']} ended")
    if sprocs and tprocs:
        last = max((p["end"][1] for p in sprocs if p.get("end")), default=None)
        first = min(p["start"] for p in tprocs)
        if last is None or first < last: V("before-tests", "a test process started before the last setup script ended")
    # failing script: no test runs, exit 105
    if failed:
        if tprocs: V("failed-script-tests-ran", f"setup script {failed} failed but {len(tprocs)} test processes were started")
        if r.exit != 105: V("exit", f"setup script {failed} failed; exit status {r.exit}, expected 105")
        return out
    want_exit = 0 if sel else 4
    if r.exit != want_exit: V("exit", f"exit status {r.exit}, expected {want_exit} (selected {len(sel)}, no script fails)")
    # env files: accepted or rejected
    fin = {}
    for (ns, kind, data) in r.events:
        if kind == "SetupScriptFinished":
            f = data.split(" ")
            fin[e2e.unhx(f[1]).decode()] = f[-1]
    for s in exp_run:
        want = "env=true" if parse.get(s) == "ok" else "env=false"
        if fin.get(s) != want: V("env-file", f"script {s} ({m['scripts'][s]['beh']}, lines {m['scripts'][s]['lines']}): nextest reports {fin.get(s)}, parse_env_file model says {parse.get(s)}")
    # variables per test
    for i, t in enumerate(m["tests"]):
        ps = [p for p in tprocs if p["bin"] == t["bin"] and p["argv"][1:2] == [t["name"]]]
        if t["selected"] and len(ps) != 1: V("test-procs", f"selected test {t['name']!r} ran {len(ps)} times"); continue
        if not t["selected"]:
            if ps: V("test-procs", f"unselected test {t['name']!r} ran")
            continue
        got = [ps[0]["env"].get(k) for k in KEYS]
        env[i] = [BASELINE.get(k) if w is None else w for k, w in zip(KEYS, env[i])]
        if got != env[i]:
            diff = {k: (g, w) for k, g, w in zip(KEYS, got, env[i]) if g != w}
            V("env-scope", f"test {t['bin']}/{t['name']!r}: variables (got, expected) differ: {diff}; rules {[(r_['filter'], r_['platform'], r_['setup'], r_['truth'][i]) for r_ in m['rules']]}")
            if any(k_.startswith("NEXTEST_TEST_") for k_ in diff): V("slot-env", f"test {t['bin']}/{t['name']!r}: the slot / group variables nextest passes were overwritten: {({k_: v_ for k_, v_ in diff.items() if k_.startswith('NEXTEST_TEST_')})}")
        gs = ps[0]["env"].get("NEXTEST_TEST_GLOBAL_SLOT")
        if gs is None or not gs.isdigit() or int(gs) >= 64: V("slot-env", f"test {t['bin']}/{t['name']!r}: NEXTEST_TEST_GLOBAL_SLOT={gs!r} is not the slot nextest allocated")
    return out


def check(seed, tier, n_quick=10, n_thorough=80):
    ok, err = e2e.build_workspace()
    broken = []
    if not ok: broken.append("scripted workspace does not build: " + err[-300:])
    okb, blog, _ = vlib.cargo_build(["cargo-nextest-verif"])
    if not okb: broken.append("cargo-nextest (hooked) does not build from the working tree: " + " | ".join([l for l in blog.split("\n") if l.startswith("error")][:4]))
    if broken: return {"e2e_runs": 0, "e2e_tests": 0, "e2e_processes": 0, "dist": {}, "violations": [], "broken": broken, "samples": [], "rule": ""}
    n = n_quick if tier == "quick" else n_thorough
    scs = [gen_scenario(seed, k) for k in range(n)]
    reqs = [model_request(sc) for sc in scs]
    try: outs = vlib.run_driver(reqs)
    except RuntimeError as e: outs = ["bad-op"]
    if len(outs) != len(reqs) or any(o == "bad-op" for o in outs):
        return {"e2e_runs": 0, "e2e_tests": 0, "e2e_processes": 0, "dist": {}, "violations": [], "broken": ["model driver failed on `scripts` requests"], "samples": [], "rule": ""}
    res = e2e.run_many(scs, os.path.join(vlib.BUILD, "e2e-run", f"scr-{seed}"), jobs=6)
    violations = []
    dist = {}
    for (sc, r), mo in zip(res, outs):
        if getattr(r, "error", None): broken.append(f"scenario {sc.name}: {r.error}"); continue
        vs, note = e2e.confirm(sc, r, (lambda sc_, r_, mo_=mo: monitors(sc_, r_, mo_)), os.path.join(vlib.BUILD, "e2e-run", f"scr-{seed}"))
        violations += vs
        if note: dist["e2e:scr:unconfirmed-or-unevaluable"] = dist.get("e2e:scr:unconfirmed-or-unevaluable", 0) + 1
        for s in sc.meta["scripts"].values(): dist["e2e:script:" + s["beh"]] = dist.get("e2e:script:" + s["beh"], 0) + 1
        en = parse_model(mo)[0]
        dist[f"e2e:enabled:{len(en)}of{len(sc.meta['defs'])}"] = dist.get(f"e2e:enabled:{len(en)}of{len(sc.meta['defs'])}", 0) + 1
    samples = [{"scenario": sc.name, "config": sc.config.replace(e2e.vscript_path(), "vscript"), "cli": sc.cli, "model": mo, "exit": r.exit} for (sc, r), mo in list(zip(res, outs))[:2]]
    return {"e2e_runs": len(res), "e2e_tests": sum(len(sc.meta["tests"]) for sc, _ in res), "e2e_processes": sum(len(r.procs) for _, r in res), "dist": dist,
            "violations": violations, "broken": broken, "samples": samples,
            "rule": "end-to-end family `scr`: the real cargo-nextest runs 2-5 scripted tests with 1-3 setup scripts defined in random order, 1-3 [[profile.default.scripts]] rules with filters from a pool of 10 and platforms from a pool of 6 (host/target forms), a CLI -E filter and ignored tests (so a rule may match only unselected tests), script behaviours ok/slow/leaky-ok/fail/killed by a signal/overrunning the slow-timeout (dying on, or exiting 0 on, the SIGTERM)/no-'='/reserved NEXTEST key/empty, duplicate keys and values containing '='; the Lean model computes from the rule truth table the enabled list, the env-file verdicts and each test's variables; the scripted processes' own records give what ran, when, and with which environment"}


if __name__ == "__main__":
    import sys
    p = check(int(sys.argv[1]) if len(sys.argv) > 1 else 1, sys.argv[2] if len(sys.argv) > 2 else "quick")
    print(p["e2e_runs"], p["broken"], p["dist"])
    for v in p["violations"]: print("  ", v["what"][:400])
