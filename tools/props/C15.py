"""C15 — each attempt is a fresh process with the exact argv, directory and environment."""
import vlib
from props import common, mix

THM = "NextestModel.Thm.C15"
GEN = []
TRUSTED = ["model: Model/Command (argv shape, order of environment writes; std::process::Command::env = last write wins)",
           "process-group leadership, /dev/null stdin, cwd and execve argv fidelity (incl. the double-spawn re-exec) are OS effects observed end-to-end through the scripted processes' own records"]
ASSUMPTIONS = ["PARTIAL: `shell_words::split ∘ join = id` (what makes double-spawn transparent) is not yet proved; it is exercised end-to-end with hostile test names (double-spawn is on by default)"]


def run(seed, tier, replay=None):
    result = {"evaluations": 0, "distinct_nontrivial": 0, "rule": "", "samples": [], "traces": 0, "dist": {}, "violations": [], "broken": []}
    return mix.merge(result, mix.check([mix.mon_argv_env], seed, tier, 8, 60))

KNOWN_MATCHERS = {}
