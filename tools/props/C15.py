"""C15 — each attempt is a fresh process with the exact argv, directory and environment."""
import json
import vlib
from props import common, mix

THM = "NextestModel.Thm.C15"
GEN = ["tables"]
GEN_GROUPS = ["spawn"]
CHECK_MODULES = ["NextestModel.Lemmas.Shell", "NextestModel.Model.Shell", "NextestModel.Model.Command"]
TRUSTED = ["model: Model/Command (argv shape, create_command with and without the double-spawn launcher, order of the environment writes of TestCommand::new, EnvironmentMap::apply_env; std::process::Command::env = last write wins) and Model/Shell (shell_words 1.1.0 split/quote/join read from its source) — both corresponded in-process",
           "the guarded hook TestInstance::verif_make_command (calls make_command and returns get_program/get_args/get_envs/get_current_dir)",
           "the launcher's re-parse (DoubleSpawnOpts::exec: shell_words::split of its single joined argument, then exec) is replayed by the harness in-process; the real launcher, process-group leadership, /dev/null stdin, cwd, the variables written in run_test_inner (__NEXTEST_ATTEMPT, NEXTEST_RUN_ID, slots, setup-script variables) and execve fidelity are observed end-to-end through the scripted processes' own records"]
ASSUMPTIONS = ["execve passes argv and envp unchanged (NUL bytes cannot occur); clap hands the two positional arguments after `--` to DoubleSpawnOpts unchanged (exercised end-to-end with hostile names)"]


def describe_cmd(m):
    f = m["req"].split(" ")
    def uh(x):
        try: return bytes.fromhex(x).decode("utf-8", "replace") if x not in ("-", ".") else ""
        except ValueError: return x
    ia, ma = m["impl"].split(" "), m["model"].split(" ")
    name = uh(f[4])
    parts = []
    labels = ["spawned argv", "argv of the process that finally runs", "working directory", "environment"]
    for lab, a, b in zip(labels, ia, ma):
        if a == b: continue
        if lab == "environment":
            probes = f[12].split(",")
            for k, x, y in zip(probes, a.split(","), b.split(",")):
                if x != y:
                    parts.append(f"{uh(k)}={uh(x) if x != '~' else '<unset>'!r}, the property says {uh(y) if y != '~' else '<unset>'!r}")
        else:
            parts.append(f"{lab} {[uh(w) for w in a.split(',')]!r}, the property says {[uh(w) for w in b.split(',')]!r}")
    return f"make_command for test {name!r} (double-spawn={f[1]}, ignored={f[5]}): " + "; ".join(parts)


def run_p(seed, tier, replay=None):
    n = 400 if tier == "quick" else 60000
    streams = [("p_cmd", [seed, n, vlib.BUILD + "/cmd-tmp"])]
    if replay:
        rp = json.load(open(replay))
        if "stream" in rp: streams = [tuple(rp["stream"])]
    r = common.run_streams(streams)
    items = [([b, args, idx], req, impl) for (b, args, idx, req, impl) in r.cases]
    mism, monf = common.compare(items, None)
    violations = []
    for m in monf:
        violations.append({"what": f"shell_words::split(join(words)) != words on the implementation: {m['req']} -> {m['impl']}",
                           "payload": {"stream": m["origin"][:2], "line_index": m["origin"][2], "request": m["req"], "impl": m["impl"]}, "kind": "shell-roundtrip"})
    detail = []
    for m in mism:
        k = m["req"].split(" ", 1)[0]
        if k == "cmd" and m["impl"].split(" ")[1:] != m["model"].split(" ")[1:]:
            violations.append({"what": describe_cmd(m), "payload": {"stream": m["origin"][:2], "line_index": m["origin"][2], "request": m["req"], "impl": m["impl"], "spec": m["model"]}, "kind": "cmd"})
        else:
            # only the intermediate launcher command line differs (a different but possibly equivalent quoting), or
            # shell_words itself differs from the model of it: the correspondence is broken; a failing round trip (above) is the violation
            detail.append({"stream": m["origin"][:2], "line_index": m["origin"][2], "request": m["req"], "impl": m["impl"], "model": m["model"]})
    cmds = [q for _, q, _ in items if q.startswith("cmd ")]
    samples = [f"{q[:160]}  =>  {i[:120]}" for (_, q, i) in items[::173]][:8]
    return {"evaluations": len(items), "distinct_nontrivial": len(set(q for _, q, _ in items)),
            "rule": "shell_words join/split on adversarial word lists and raw strings (distinct requests); make_command cases with hostile names, extra args, inherited env and Cargo [env] (with/without force) colliding with nextest's variables, double-spawn on/off",
            "samples": samples, "traces": len(cmds), "dist": r.dist, "violations": violations, "broken": r.broken,
            "impl_failures": r.impl_failures, "detail_mismatches": detail}


def run(seed, tier, replay=None):
    return mix.merge(run_p(seed, tier, replay), mix.check([mix.mon_argv_env], seed, tier, 15, 60))

KNOWN_MATCHERS = {}
