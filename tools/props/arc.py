"""End-to-end scenario family "arc": `cargo nextest archive` / `list --archive-file` / `run --archive-file` of
the real CLI on the scripted workspace with generated include trees; creation killed (SIGKILL) at random
moments and made to fail; everything compared against the file system (digests) and the direct listing."""
import hashlib, json, os, random, shutil, signal, subprocess, time
import vlib, e2e
from e2e import hx
from props import mix


def sha(p):
    h = hashlib.sha256()
    with open(p, "rb") as f:
        for chunk in iter(lambda: f.read(1 << 20), b""): h.update(chunk)
    return h.hexdigest()


def env_for(work, spec):
    env = dict(os.environ, CARGO_TARGET_DIR=e2e.E2E_TARGET, CARGO_NET_OFFLINE="true", VERIF_SPEC=spec, VERIF_LOG_DIR=os.path.join(work, "logs"), NO_COLOR="1", CARGO_TERM_COLOR="never")
    for k in list(env):
        if k.startswith("NEXTEST_"): del env[k]
    return env


def nx(args, env, timeout=120, cwd=e2e.WS):
    p = subprocess.run([e2e.NEXTEST, "nextest"] + args, cwd=cwd, env=env, stdout=subprocess.PIPE, stderr=subprocess.PIPE, timeout=timeout)
    return p.returncode, p.stdout.decode(errors="replace"), p.stderr.decode(errors="replace")


def listing(js):
    d = json.loads(js)
    return {bid: sorted((n, tc["ignored"], tc["filter-match"]["status"]) for n, tc in s["testcases"].items()) for bid, s in d["rust-suites"].items()}, d


def gen_tree(rng, root, depth):
    """materialise a random tree; returns {relpath: kind} for files ('f')"""
    out = {}
    os.makedirs(root, exist_ok=True)
    for i in range(rng.randrange(1, 4)):
        name = rng.choice(["f", "data file", "é", "x.bin"]) + str(i)
        with open(os.path.join(root, name), "wb") as f: f.write(os.urandom(rng.choice([0, 1, 5000, 70000])))
        out[name] = "f"
    if depth > 0:
        for i in range(rng.randrange(0, 3)):
            name = f"sub{i}"
            for k, v in gen_tree(rng, os.path.join(root, name), depth - 1).items(): out[f"{name}/{k}"] = v
    return out


def one_roundtrip(seed, k, base):
    rng = random.Random(seed * 104729 + k)
    work = os.path.join(base, f"rt{k}")
    if os.path.exists(work): shutil.rmtree(work)
    os.makedirs(os.path.join(work, "logs"))
    V = []
    def viol(kind, what, **kw):
        V.append({"what": f"[arc{k}] {what}", "kind": kind, "payload": dict(kw, scenario=f"arc{k}", workdir=work, what=what)})
    tests = []
    spec = ""
    for b in ("t_one", "t_two", "t_three"):
        for i in range(rng.randrange(0, 3)):
            n = rng.choice(["aa::x", "mod::with space", "zz", "q'uote"]) + str(i); ign = rng.random() < 0.2
            tests.append((b, n, ign)); spec += f"list {b} {hx(n)} {1 if ign else 0}\nact {b} {hx(n)} * exit:0\n"
    specf = os.path.join(work, "spec.txt"); open(specf, "w").write(spec)
    env = env_for(work, specf)
    incroot = f"vt-inc-{os.getpid()}-{seed}-{k}"
    incabs = os.path.join(e2e.E2E_TARGET, incroot)
    try:
        files = gen_tree(rng, incabs, 3)
        depth = rng.choice([0, 1, 2, "infinite", None])
        cfg = "[profile.default]\n[[profile.default.archive.include]]\n" + f'path = "{incroot}"\nrelative-to = "target"\n' + (f"depth = {json.dumps(depth)}\n" if depth is not None else "")
        sub = next((p.split("/")[0] for p in files if "/" in p), None)
        if sub and rng.random() < 0.6:
            # an overlapping, deeper include of a sub-directory, listed first or second
            extra = f'[[profile.default.archive.include]]\npath = "{incroot}/{sub}"\nrelative-to = "target"\ndepth = "infinite"\n'
            first = rng.random() < 0.5
            cfg = ("[profile.default]\n" + extra + cfg.replace("[profile.default]\n", "")) if first else cfg + extra
        else: sub = None
        cfgf = os.path.join(work, "nextest.toml"); open(cfgf, "w").write(cfg)
        lim = {0: 0, 1: 1, 2: 2, "infinite": 99, None: 16}[depth]
        want_inc = {p for p in files if p.count("/") + 1 <= lim} | ({p for p in files if sub and p.startswith(sub + "/")})
        common = ["--manifest-path", os.path.join(e2e.WS, "Cargo.toml"), "--config-file", cfgf, "--offline"]
        rc, out, err = nx(["list", "--message-format", "json"] + common, env)
        if rc != 0: viol("machinery", f"direct list failed rc={rc}: {err[-300:]}"); return V, {}
        direct, dj = listing(out)
        arch = os.path.join(work, "a.tar.zst")
        rc, out, err = nx(["archive", "--archive-file", arch] + common, env)
        if rc != 0: viol("archive-failed", f"archive failed rc={rc}: {err[-400:]}"); return V, {}
        dest = os.path.join(work, "x"); os.makedirs(dest)
        rc, out, err = nx(["list", "--archive-file", arch, "--extract-to", dest, "--message-format", "json", "--config-file", cfgf], env)
        if rc != 0: viol("list-from-archive", f"list --archive-file failed rc={rc}: {err[-400:]}"); return V, {}
        fromarch, aj = listing(out)
        if fromarch != direct: viol("selection", f"tests listed from the archive differ from the direct listing: {fromarch} vs {direct}")
        tgt = os.path.realpath(os.path.join(dest, "target"))
        for bid, s in aj["rust-suites"].items():
            o = dj["rust-suites"][bid]["binary-path"]
            rel = os.path.relpath(o, e2e.E2E_TARGET)
            if os.path.realpath(s["binary-path"]) != os.path.join(tgt, rel): viol("remap", f"{bid}: binary path {s['binary-path']} is not {tgt}/{rel}")
        # file tree: every extracted file equals its source byte for byte; include members exactly as configured
        got_inc = set()
        n_files = 0
        for dp, dn, fn in os.walk(tgt):
            for f in fn:
                p = os.path.join(dp, f); rel = os.path.relpath(p, tgt)
                if rel.startswith("nextest/"): continue
                n_files += 1
                srcp = os.path.join(e2e.E2E_TARGET, rel)
                if not os.path.exists(srcp) or sha(p) != sha(srcp): viol("bytes", f"extracted file {rel} differs from its source")
                if rel.startswith(incroot + "/"): got_inc.add(rel[len(incroot) + 1:])
        if got_inc != want_inc:
            viol("depth", f"include {incroot} depth={depth} (+ infinite include of {sub}): extracted {sorted(got_inc)}, the tree and depths demand {sorted(want_inc)}")
        for bid, s in dj["rust-suites"].items():
            rel = os.path.relpath(s["binary-path"], e2e.E2E_TARGET)
            if not os.path.exists(os.path.join(tgt, rel)): viol("members", f"test binary {rel} missing from the extraction")
        if not os.path.exists(os.path.join(tgt, "debug", "vscript")): viol("members", "non-test binary debug/vscript missing from the extraction")
        # run from the archive
        dest2 = os.path.join(work, "x2"); os.makedirs(dest2)
        rc, out, err = nx(["run", "--archive-file", arch, "--extract-to", dest2, "--workspace-remap", e2e.WS, "--config-file", cfgf, "--no-fail-fast"], env)
        sel = [t for t in tests if not t[2]]
        if rc != (0 if sel else 4): viol("run-from-archive", f"run --archive-file exit {rc}, expected {0 if sel else 4}: {err[-300:]}")
        procs = [p for p in e2e.parse_proc_logs(os.path.join(work, "logs")) if "--exact" in p.get("argv", [])]
        ran = sorted((p["bin"], p["argv"][1]) for p in procs)
        if ran != sorted((b, n) for (b, n, ig) in sel): viol("run-from-archive", f"tests run from the archive {ran} != selected {sorted((b, n) for (b, n, ig) in sel)}")
        return V, {"files": n_files, "include_files": len(files), "depth": str(depth), "overlap": bool(sub)}
    finally:
        shutil.rmtree(incabs, ignore_errors=True)


def crash_points(seed, n, base):
    """kill `archive` with SIGKILL at random moments; the destination must be absent/unchanged or a complete archive"""
    rng = random.Random(seed * 31337)
    work = os.path.join(base, "crash")
    if os.path.exists(work): shutil.rmtree(work)
    os.makedirs(os.path.join(work, "logs"))
    V = []; dist = {}
    specf = os.path.join(work, "spec.txt"); open(specf, "w").write(f"list t_one {hx('a')} 0\n")
    env = env_for(work, specf)
    incroot = f"vt-big-{os.getpid()}-{seed}"
    incabs = os.path.join(e2e.E2E_TARGET, incroot)
    os.makedirs(incabs, exist_ok=True)
    try:
        with open(os.path.join(incabs, "big.bin"), "wb") as f: f.write(os.urandom(12 << 20))
        cfgf = os.path.join(work, "nextest.toml")
        open(cfgf, "w").write(f'[profile.default]\n[[profile.default.archive.include]]\npath = "{incroot}"\nrelative-to = "target"\n')
        common = ["--manifest-path", os.path.join(e2e.WS, "Cargo.toml"), "--config-file", cfgf, "--offline", "--zstd-level", "12"]
        arch = os.path.join(work, "a.tar.zst")
        t0 = time.time(); rc, out, err = nx(["archive", "--archive-file", arch] + common, env); full = time.time() - t0
        if rc != 0: return [{"what": f"[crash] reference archive failed: {err[-300:]}", "kind": "machinery", "payload": {}}], dist
        ref_size = os.path.getsize(arch)
        for i in range(n):
            pre = rng.random() < 0.5
            if pre: open(arch, "wb").write(b"previous archive " * 100)
            elif os.path.exists(arch): os.remove(arch)
            delay = rng.uniform(0.02, full * 1.05)
            p = subprocess.Popen([e2e.NEXTEST, "nextest", "archive", "--archive-file", arch] + common, cwd=e2e.WS, env=env, stdout=subprocess.DEVNULL, stderr=subprocess.DEVNULL)
            time.sleep(delay)
            killed = p.poll() is None
            if killed: p.send_signal(signal.SIGKILL)
            p.wait()
            if not os.path.exists(arch): state = "absent"
            elif open(arch, "rb").read(17) == b"previous archive ": state = "unchanged"
            else:
                d = os.path.join(work, f"x{i}"); os.makedirs(d)
                rc, out, err = nx(["list", "--archive-file", arch, "--extract-to", d, "--message-format", "json", "--config-file", cfgf], env)
                okb = rc == 0 and os.path.exists(os.path.join(d, "target", incroot, "big.bin")) and sha(os.path.join(d, "target", incroot, "big.bin")) == sha(os.path.join(incabs, "big.bin"))
                state = "complete" if okb else "PARTIAL"
                shutil.rmtree(d, ignore_errors=True)
            dist[f"e2e:crash:{'killed' if killed else 'finished'}:{state}"] = dist.get(f"e2e:crash:{'killed' if killed else 'finished'}:{state}", 0) + 1
            okstate = state in (("unchanged", "complete") if pre else ("absent", "complete")) and (killed or state == "complete")
            if not okstate:
                V.append({"what": f"[crash{i}] archive creation killed after {delay:.3f}s (of {full:.3f}s): destination is {state} (pre-existing: {pre})", "kind": "atomic",
                          "payload": {"delay_s": delay, "full_s": full, "pre_existing": pre, "state": state, "killed": killed, "size": os.path.getsize(arch) if os.path.exists(arch) else None, "ref_size": ref_size}})
        return V, dist
    finally:
        shutil.rmtree(incabs, ignore_errors=True)


def write_faults(seed, n, base):
    """make `archive` hit a write error (EFBIG: RLIMIT_FSIZE with SIGXFSZ ignored) at chosen distances from the end of the archive,
    including inside the last buffer-full: a failed creation must leave the destination absent — never a truncated file"""
    import resource
    rng = random.Random(seed * 7919)
    work = os.path.join(base, "efbig")
    if os.path.exists(work): shutil.rmtree(work)
    os.makedirs(os.path.join(work, "logs"))
    V = []; dist = {}
    specf = os.path.join(work, "spec.txt"); open(specf, "w").write(f"list t_one {hx('a')} 0\n")
    env = env_for(work, specf)
    cfgf = os.path.join(work, "nextest.toml"); open(cfgf, "w").write("[profile.default]\n")
    common = ["--manifest-path", os.path.join(e2e.WS, "Cargo.toml"), "--config-file", cfgf, "--offline", "--zstd-level", "1"]
    arch = os.path.join(work, "a.tar.zst")
    rc, out, err = nx(["archive", "--archive-file", arch] + common, env)
    if rc != 0: return [{"what": f"[efbig] reference archive failed: {err[-300:]}", "kind": "machinery", "payload": {}}], dist
    S = os.path.getsize(arch)
    ks = [1, 2, 5, 9, 12] + [rng.randrange(13, 8000) for _ in range(max(0, n - 5))]
    for k in ks[:max(n, 3)]:
        L = S - k
        if os.path.exists(arch): os.remove(arch)
        def pre():
            signal.signal(signal.SIGXFSZ, signal.SIG_IGN)
            resource.setrlimit(resource.RLIMIT_FSIZE, (L, L))
        p = subprocess.run([e2e.NEXTEST, "nextest", "archive", "--archive-file", arch] + common, cwd=e2e.WS, env=env, stdout=subprocess.DEVNULL, stderr=subprocess.PIPE, preexec_fn=pre)
        size = os.path.getsize(arch) if os.path.exists(arch) else None
        if size is None: state = "absent"
        else:
            d = os.path.join(work, f"x{k}"); os.makedirs(d, exist_ok=True)
            rc2, out2, err2 = nx(["list", "--archive-file", arch, "--extract-to", d, "--message-format", "json", "--config-file", cfgf], env)
            state = "complete" if rc2 == 0 else "TRUNCATED"
            shutil.rmtree(d, ignore_errors=True)
        dist[f"e2e:efbig:{state}"] = dist.get(f"e2e:efbig:{state}", 0) + 1
        if state == "TRUNCATED" or (state == "absent" and p.returncode == 0) or (state == "complete" and size is not None and size > L):
            V.append({"what": f"[efbig] archive creation with writes failing {k} bytes before the end of a {S}-byte archive: exit {p.returncode}, destination is {state} ({size} bytes) — a failed creation must not leave a partial archive", "kind": "atomic",
                      "payload": {"archive_size": S, "limit": L, "exit": p.returncode, "state": state, "size": size, "stderr": p.stderr.decode(errors="replace")[-300:]}})
    return V, dist


def check(seed, tier, n_quick=3, n_thorough=20, k_quick=4, k_thorough=30):
    ok, err = e2e.build_workspace()
    broken = []
    if not ok: broken.append("scripted workspace does not build: " + err[-300:])
    okb, blog, _ = vlib.cargo_build(["cargo-nextest-verif"])
    if not okb: broken.append("cargo-nextest (hooked) does not build from the working tree: " + " | ".join([l for l in blog.split("\n") if l.startswith("error")][:4]))
    if broken: return {"e2e_runs": 0, "e2e_tests": 0, "e2e_processes": 0, "dist": {}, "violations": [], "broken": broken, "samples": [], "rule": ""}
    base = os.path.join(vlib.BUILD, "e2e-run", f"arc-{seed}")
    n = n_quick if tier == "quick" else n_thorough
    violations = []; dist = {}; samples = []
    for k in range(n):
        try:
            v, info = one_roundtrip(seed, k, base)
        except Exception as e:
            broken.append(f"arc{k}: {e!r}"); continue
        violations += [x for x in v if x["kind"] != "machinery"]
        broken += [x["what"] for x in v if x["kind"] == "machinery"]
        if info:
            dist[f"e2e:arc:depth:{info['depth']}"] = dist.get(f"e2e:arc:depth:{info['depth']}", 0) + 1
            if k < 2: samples.append(info)
    try:
        v, d = crash_points(seed, k_quick if tier == "quick" else k_thorough, base)
        violations += [x for x in v if x["kind"] != "machinery"]; broken += [x["what"] for x in v if x["kind"] == "machinery"]
        dist.update(d)
    except Exception as e:
        broken.append(f"crash points: {e!r}")
    try:
        v, d = write_faults(seed, 5 if tier == "quick" else 40, base)
        violations += [x for x in v if x["kind"] != "machinery"]; broken += [x["what"] for x in v if x["kind"] == "machinery"]
        dist.update(d)
    except Exception as e:
        broken.append(f"write faults: {e!r}")
    shutil.rmtree(base, ignore_errors=True)
    return {"e2e_runs": n, "e2e_tests": 0, "e2e_processes": 0, "dist": dist, "violations": violations, "broken": broken, "samples": samples,
            "rule": "end-to-end family `arc`: the real CLI archives the scripted workspace (3 test binaries + 1 non-test binary) with a generated include tree (depth 0/1/2/infinite/default, optionally an overlapping deeper include listed before or after), lists and runs from the archive, and every extracted file is compared byte for byte (SHA-256) with its source, the include members with what the depths demand, the listing with the direct listing, binary paths with the extraction directory; `archive` is killed with SIGKILL at random moments (with and without a pre-existing destination) and the destination must be absent/unchanged or a complete, extractable archive; `archive` is made to hit a write error (EFBIG) 1-12 and more bytes before the end of the archive and must then leave no destination file"}


if __name__ == "__main__":
    import sys
    p = check(int(sys.argv[1]) if len(sys.argv) > 1 else 1, sys.argv[2] if len(sys.argv) > 2 else "quick")
    print(p["e2e_runs"], p["broken"], p["dist"])
    for v in p["violations"]: print("  ", v["what"][:400])
