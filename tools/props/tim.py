"""End-to-end scenario families for the timed / signalled behaviour of a running unit:
  slow  (C09)  slow-timeout periods, terminate-after, grace period, reactions to SIGTERM, descendants
  sig   (C11)  shutdown signals (one or two) at every phase of a unit's life
  stop  (C12)  SIGTSTP / SIGCONT (and SIGUSR1) at every phase, interleaved with timeouts, retries, shutdown
Every expectation is recomputed from the scripted processes' own records (signals with CLOCK_MONOTONIC
timestamps, start/end, gaps while stopped), the event-log tap, the supervisor's view of nextest
(stopped / continued / exit status) and pid liveness afterwards."""
import os, random, re, signal, sys
import vlib, e2e
from e2e import hx
from props import mix

SLACK_LO = 40      # ms a timer may appear to fire early (process start is logged after exec)
SLACK_HI = 700     # ms of scheduling latency tolerated on a loaded machine
BINS = [("t_one", "alpha"), ("t_two", "alpha"), ("t_three", "beta")]


def key_of(b, pkg, n):
    return f"{hx(pkg + '::' + b)}/{hx(n)}"


def tprocs(r, b, n):
    """processes of test (bin, name), by start time"""
    ps = [p for p in r.procs if p.get("start") and not p.get("child") and p.get("bin") == b and p.get("argv", [])[:2] == ["--exact", n]]
    return sorted(ps, key=lambda p: p["start"])


def children_of(r, p):
    return [c for c in r.procs if c.get("child") and c.get("ppid") == p["pid"]]


def events_for(r, kind, key):
    return [(ns, data) for (ns, k, data) in r.events if k == kind and data.split(" ")[0] == key]


def finished(r, key):
    ev = events_for(r, "TestFinished", key)
    if not ev: return None
    m = re.search(r"\[(.*)\]", ev[-1][1])
    return [s.split(":") for s in m.group(1).split(" ")] if m and m.group(1) else []


def ms(ns):
    return ns / 1e6


def build(broken):
    ok, err = e2e.build_workspace()
    if not ok: broken.append("scripted workspace does not build: " + err[-300:])
    okb, blog, _ = vlib.cargo_build(["cargo-nextest-verif"])
    if not okb: broken.append("cargo-nextest (hooked) does not build from the working tree: " + " | ".join([l for l in blog.split("\n") if l.startswith("error")][:4]))
    return not broken


def base_config(P, K, G, extra="", retries=None, threads=8, fail_fast="false", leak=200):
    st = f'{{ period = "{P}ms"' + (f", terminate-after = {K}" if K else "") + f', grace-period = "{G}ms" }}'
    return f'''[profile.default]
slow-timeout = {st}
leak-timeout = "{leak}ms"
test-threads = {threads}
fail-fast = {fail_fast}
status-level = "all"
final-status-level = "all"
failure-output = "never"
success-output = "never"
{('retries = ' + retries) if retries else ''}
{extra}
'''


# ------------------------------------------------------------------------------------------------ slow (C09)

def gen_slow(seed, k):
    rng = random.Random(seed * 6007 + k)
    sc = e2e.Scenario(f"slow{k}")
    P = rng.choice([250, 400]); K = rng.choice([None, 1, 2, 3]); G = rng.choice([0, 300, 300])
    if k == 0: P, K, G = 300, 2, 300
    kinds = ["fast", "long_ok", "hang_exit", "hang_default", "hang_ign", "hang_late", "hang_out"] if K else ["fast", "long_ok", "long_ok"]
    n = rng.randrange(2, 5) if k else 7
    tests = []
    # an override gives one binary its own, different slow-timeout
    ovr = rng.random() < 0.4 and K is not None
    P2, K2, G2 = (rng.choice([200, 500]), rng.choice([1, 2]), rng.choice([0, 250])) if ovr else (P, K, G)
    for i in range(n):
        b, pkg = BINS[i % 3]
        kind = rng.choice(kinds) if k else ["fast", "hang_ign", "long_ok", "hang_exit", "hang_out", "hang_out", "hang_out"][i % 7]
        p, kk, g = (P2, K2, G2) if (ovr and b == "t_three") else (P, K, G)
        name = f"{kind}_{i}"
        if kind == "fast": acts = ["work:40", "exit:0"]; dur = 40
        elif kind == "long_ok":
            dur = int(kk * p - 0.45 * p) if kk else int(2.5 * p)
            acts = [f"work:{dur}", "exit:0"]
        elif kind == "hang_exit": acts = ["onsig:15:0:0", "hang"]; dur = None
        elif kind == "hang_default": acts = ["hang"]; dur = None
        elif kind == "hang_ign": acts = ["ignore:15", "child:20000", "hang"]; dur = None
        elif kind == "hang_out":
            # writes its last words when told to terminate: they must be captured although the attempt ends as a timeout
            # (the pipe is enlarged so that the last write never blocks: the bytes are still in the pipe when the process is gone)
            acts = [f"outn:out:{i}:3000:4096:0:bin", f"onsigw:15:0:{100 + i}:{[400000, 900000, 60000][i % 3] if k == 0 else rng.choice([10, 60000, 400000, 900000])}", "pipesz:1048576", "hang"]; dur = None
        else: acts = [f"onsig:15:7:{g // 2}", "hang"]; dur = None
        tests.append({"bin": b, "pkg": pkg, "name": name, "kind": kind, "dur": dur, "P": p, "K": kk, "G": g, "acts": acts})
        sc.test(b, name, acts)
    extra = f'''
[[profile.default.overrides]]
filter = 'binary(t_three)'
slow-timeout = {{ period = "{P2}ms", terminate-after = {K2}, grace-period = "{G2}ms" }}
''' if ovr else ""
    sc.config = base_config(P, K, G, extra)
    sc.timeout_s = 40
    sc.meta = {"tests": tests, "family": "slow"}
    return sc


def mon_slow(sc, r):
    out = []
    V = lambda kind, what, **kw: out.append(mix.viol(sc, r, kind, what, kw))
    if r.hung: V("hang", "nextest did not exit"); return out
    any_hang = any(t["dur"] is None for t in sc.meta["tests"])
    if r.exit != (100 if any_hang else 0): V("exit", f"exit status {r.exit}; {'a test was terminated for exceeding its slow-timeout (a timed-out test is a failed test whatever its process exit code), expected 100' if any_hang else 'every test finished in time and passed, expected 0'}")
    for t in sc.meta["tests"]:
        key = key_of(t["bin"], t["pkg"], t["name"]); P, K, G = t["P"], t["K"], t["G"]
        ps = tprocs(r, t["bin"], t["name"])
        fin = finished(r, key)
        if len(ps) != 1 or not fin: V("once", f"test {t['name']}: {len(ps)} processes, finished={fin}"); continue
        p = ps[0]; st = fin[-1]; res, slowflag, taken = st[1], st[2] == "slow", int(st[3][:-2])
        sigs = [(s, ms(ns - p["start"])) for (ns, s) in p["sigs"]]
        slows = [(int(d.split(" ")[2][:-2]), d.split(" ")[3] == "will_terminate=true") for (ns, d) in events_for(r, "TestSlow", key)]
        hang = t["dur"] is None
        deadline = K * P if K else None
        if not hang:
            # finishes before its deadline: never signalled, passes, slow iff it ran longer than the period
            if sigs: V("signalled-early", f"test {t['name']} (runs {t['dur']} ms, deadline {deadline} ms) received signals {sigs}")
            if res != "P": V("result", f"test {t['name']} finished before its deadline but is reported {res}")
            want_slow = t["dur"] > P + SLACK_LO
            if t["dur"] < P - SLACK_HI // 4 and slowflag: V("slow-flag", f"test {t['name']} ran {t['dur']} ms < period {P} ms but is marked slow")
            if want_slow and not slowflag: V("slow-flag", f"test {t['name']} ran {t['dur']} ms > period {P} ms but is not marked slow")
            if any(w for (_, w) in slows): V("will-terminate", f"test {t['name']} finished before its deadline but a TestSlow event announced termination")
            continue
        # never exits on its own: terminated at K*P of running time, and never before
        if res != "T": V("result", f"hanging test {t['name']} (terminate-after {K} x {P} ms) is reported {res}, expected a timeout")
        if not slowflag: V("slow-flag", f"hanging test {t['name']} is not marked slow")
        first = "KILL" if G == 0 else "TERM"
        if t["kind"] in ("hang_exit", "hang_ign", "hang_late", "hang_out"):
            if first == "TERM":
                if [s for (s, _) in sigs] != [15]: V("signal", f"test {t['name']}: received signals {sigs}, expected exactly one SIGTERM (grace {G} ms)")
                else:
                    at = sigs[0][1]
                    if at < deadline - SLACK_LO: V("early", f"test {t['name']}: SIGTERM after {at:.0f} ms, before the deadline {K} x {P} = {deadline} ms")
                    if at > deadline + SLACK_HI: V("late", f"test {t['name']}: SIGTERM only after {at:.0f} ms, deadline {deadline} ms")
            else:
                if sigs: V("signal", f"test {t['name']}: grace period 0 but it received catchable signals {sigs} (expected SIGKILL at once)")
        # when did it die
        died_at = taken
        if t["kind"] == "hang_out" and G != 0:
            import xxh64
            f = t["acts"][1].split(":"); first = t["acts"][0].split(":")
            data = xxh64.pattern(int(first[2]), int(first[3]), "bin") + xxh64.pattern(int(f[3]), int(f[4]), "bin")
            mcap = re.match(r"split:(\d+):([0-9a-f]+):", ":".join(st[5:]))
            if not mcap or int(mcap.group(1)) != len(data) or int(mcap.group(2), 16) != xxh64.xxh64(data):
                V("capture", f"test {t['name']}: wrote {len(data)} bytes in all ({f[4]} of them on SIGTERM, just before exiting); captured {mcap.group(1) if mcap else None} bytes" + ("" if not mcap or int(mcap.group(1)) != len(data) else " with different content"))
        lo, hi = {"hang_exit": (deadline, deadline), "hang_default": (deadline, deadline), "hang_out": (deadline, deadline), "hang_late": (deadline + G // 2, deadline + G // 2), "hang_ign": (deadline + G, deadline + G)}[t["kind"]]
        if G == 0: lo = hi = deadline
        if died_at < lo - SLACK_LO: V("early", f"test {t['name']} ({t['kind']}): reported duration {died_at} ms, cannot end before {lo} ms")
        if died_at > hi + SLACK_HI: V("late", f"test {t['name']} ({t['kind']}): reported duration {died_at} ms, expected about {hi} ms (deadline {deadline} + grace {G})")
        if t["kind"] == "hang_ign" or G == 0:
            if p.get("end"): V("not-killed", f"test {t['name']}: must have been killed by SIGKILL but recorded its own exit {p['end']}")
        for c in children_of(r, p):
            csigs = [s for (_, s) in c["sigs"]]
            if G != 0 and csigs != [15]: V("group", f"descendant of {t['name']} (same process group) received {csigs}, expected the group-wide SIGTERM")
            if c.get("end"): V("group", f"descendant of {t['name']} outlived the group kill (recorded its own exit)")
            if c["pid"] in r.survivors: V("survivor", f"descendant {c['pid']} of {t['name']} is still alive after nextest exited")
        # Slow events: one per period, termination announced on the K-th only (suppressed altogether when grace = 0)
        if G != 0:
            want = [((i + 1) * P, i + 1 == K) for i in range(K)]
            if slows != want: V("slow-events", f"test {t['name']}: TestSlow events {slows}, expected {want}")
    return out


# ------------------------------------------------------------------------------------------------ sig (C11)

SHUT = {2: "Interrupt", 15: "Signal", 1: "Signal", 3: "Signal"}
DELAY_OVERRIDE = """
[[profile.default.overrides]]
filter = 'test(/^delay_/)'
retries = { backoff = "fixed", count = 1, delay = "2500ms" }
"""
TERM_OVERRIDE = """
[[profile.default.overrides]]
filter = 'binary(t_three)'
slow-timeout = { period = "300ms", terminate-after = 1, grace-period = "1500ms" }
"""


def gen_sig(seed, k):
    rng = random.Random(seed * 7703 + k)
    sc = e2e.Scenario(f"sig{k}")
    S = rng.choice([2, 15, 1, 3]); G = rng.choice([0, 300, 1200])
    second = rng.choice([None, None, 2, 15, 1, 3])
    phase = rng.choice(["running", "running", "terminating", "script"])
    if k == 0: S, G, second, phase = 15, 300, None, "running"
    if k == 1: S, G, second, phase = 2, 1200, 2, "running"
    # corpus: ONE shutdown signal while a unit sits in the grace period of its timeout termination: it is killed at once
    if k == 2: S, G, second, phase = 2, 300, None, "terminating"
    # corpus: the run is shut down during the setup script, which exits 0 on the signal: no test ever finishes, and the run is
    # still a cancelled one (exit 100), not one in which "no tests were run"
    if k == 3: S, G, second, phase = 15, 300, None, "script"
    gap2 = 250
    tests = []
    kinds = ["run_die", "run_ign", "run_late", "delay", "drain", "done", "run_ign", "run_retry"]
    n = rng.randrange(2, 5) if k > 1 else 5
    for i in range(n):
        b, pkg = BINS[i % 2]          # t_three is reserved for the unit under timeout termination
        kind = rng.choice(kinds) if k > 1 else ["run_ign", "run_die", "delay", "done", "run_retry"][i % 5]
        name = f"{kind}_{i}" if kind != "run_retry" else f"delay_run_{i}"
        if kind == "run_die": acts = {"*": [f"onsig:{S}:0:0", "hang"]}
        # fails on the forwarded signal while it still has a retry (with a 2.5 s delay) left: the retry delay must not be sat out
        elif kind == "run_retry": acts = {"*": [f"onsig:{S}:1:0", "hang"]}
        elif kind == "run_ign": acts = {"*": [f"ignore:{S}", "child:20000", "hang"]}
        elif kind == "run_late": acts = {"*": [f"onsig:{S}:3:{G // 2}", "hang"]}
        elif kind == "delay": acts = {"1": ["exit:1"], "2": ["work:50", "exit:0"]}
        elif kind == "drain": acts = {"*": ["child:900", "exit:0"]}
        else: acts = {"*": ["work:30", "exit:0"]}
        tests.append({"bin": b, "pkg": pkg, "name": name, "kind": kind, "G": G})
        sc.test(b, name, acts)
    extra = DELAY_OVERRIDE
    head = ""
    if phase == "terminating":
        tests.append({"bin": "t_three", "pkg": "beta", "name": "term_timeout", "kind": "term_timeout", "G": 1500})
        sc.test("t_three", "term_timeout", ["ignore:15", f"ignore:{S}", "child:20000", "hang"])
        extra += TERM_OVERRIDE
        trig = ("TestSlow .*will_terminate=true", 1, 250)
    elif phase == "script":
        sc.scripts.append(("s1", [(f"ignore:{S}" if rng.random() < 0.5 else f"onsig:{S}:0:0") if k != 3 else f"onsig:{S}:0:0", "child:20000", "hang"]))
        head = 'experimental = ["setup-scripts"]\n'
        extra += '[script.s1]\ncommand = ["@VSCRIPT@", "s1"]\n' + f'slow-timeout = {{ period = "60s", grace-period = "{G}ms" }}\n' + "[[profile.default.scripts]]\nfilter = 'all()'\nsetup = [\"s1\"]\n"
        trig = ("SetupScriptStarted", 1, 250)
    else:
        trig = ("TestStarted " + key_of(tests[0]["bin"], tests[0]["pkg"], tests[0]["name"]), 1, 350)
    sc.config = head + base_config(60000, None, G, "", threads=8, leak=1500) + extra
    sc.signals = [(trig[0], trig[1], trig[2], S)] + ([(trig[0], trig[1], trig[2] + gap2, second)] if second else [])
    sc.timeout_s = 40
    sc.meta = {"tests": tests, "family": "sig", "S": S, "G": G, "second": second, "phase": phase, "gap2": gap2}
    return sc


def mon_sig(sc, r):
    out = []
    V = lambda kind, what, **kw: out.append(mix.viol(sc, r, kind, what, kw))
    m = sc.meta; S, G, second, phase = m["S"], m["G"], m["second"], m["phase"]
    if r.hung: V("hang", f"nextest did not exit after signal {S}" + (f" and {second}" if second else "")); return out
    sent = [(ns, s) for (ns, s) in r.sent if s > 0]
    if not sent: return [dict(mix.viol(sc, r, "machinery", "the supervisor never sent the signal (trigger not seen)"), machinery=True)]
    t1 = sent[0][0]; t2 = sent[1][0] if len(sent) > 1 else None
    cancels = [(ns, d) for (ns, k, d) in r.events if k == "RunBeginCancel"]
    kills = [(ns, d) for (ns, k, d) in r.events if k == "RunBeginKill"]
    if not cancels or not cancels[0][1].startswith(SHUT[S]): V("cancel-event", f"signal {S}: RunBeginCancel events {[d for _, d in cancels]}, expected reason {SHUT[S]}")
    for (ns, k, d) in r.events:
        if k == "TestStarted" and ns > t1 + 50e6: V("start-after-signal", f"test started {ms(ns - t1):.0f} ms after the shutdown signal: {d}")
    # non-zero unless every selected test ran to a passing result (a unit that exits 0 on the signal has passed);
    # 105 when the interrupted setup script ends as a failure
    fins = {t["name"]: finished(r, key_of(t["bin"], t["pkg"], t["name"])) for t in m["tests"]}
    all_passed = all(f and f[-1][1] in ("P", "L") for f in fins.values())
    script_res = [d.split(" ")[2] for (ns, k, d) in r.events if k == "SetupScriptFinished"]
    want_exit = (105 if script_res and script_res[0] not in ("P", "L") else 100) if phase == "script" else (0 if all_passed else 100)
    if r.exit != want_exit: V("exit", f"nextest exit status {r.exit} after a shutdown signal (all selected tests passed: {all_passed}; setup script: {script_res}), expected {want_exit}")
    last_death = t1
    units = [(t, tprocs(r, t["bin"], t["name"])) for t in m["tests"]]
    if phase == "script":
        sp = sorted([p for p in r.procs if p.get("bin") == "vscript" and p.get("start")], key=lambda p: p["start"])
        units = [({"kind": "run_ign" if any(a.startswith("ignore:") for a in sc.scripts[0][1]) else "run_die", "name": "setup script s1", "bin": "vscript", "G": G, "script": True}, sp)]
        for t in m["tests"]:
            if tprocs(r, t["bin"], t["name"]): V("start-after-signal", f"test {t['name']} ran although the run was shut down during the setup script")
    for t, ps in units:
        kind = t["kind"]; g = t["G"]
        if kind == "done": continue
        if kind == "delay":
            if len(ps) != 1: V("retry-after-signal", f"test {t['name']}: {len(ps)} attempts ran; the shutdown arrived during the retry delay, the retry must not start")
            continue
        if not ps: out.append(dict(mix.viol(sc, r, "machinery", f"{t['name']} never ran"), machinery=True)); continue
        p = ps[0]
        retry_unit = kind == "run_retry"
        if retry_unit:
            if len(ps) != 1: V("retry-after-signal", f"test {t['name']}: {len(ps)} attempts ran; it failed on the shutdown signal, the retry must not start")
            kind = "run_die"
        if kind == "drain": continue      # exited long before; nothing is forwarded while draining, the unit ends within the leak timeout
        if p.get("end") and p["end"][1] <= t1: continue
        sigs = [(s, ms(ns - t1)) for (ns, s) in p["sigs"]]
        if t.get("script"): fin_ns = next((ns for (ns, k, d) in r.events if k == "SetupScriptFinished"), None)
        else: fin_ns = next((ns for (ns, k, d) in r.events if k == "TestFinished" and d.split(" ")[0] == key_of(t["bin"], t["pkg"], t["name"])), None)
        # a unit whose attempt failed with a retry left reports that attempt and then, its retry refused, nothing more
        if retry_unit and fin_ns is None: fin_ns = next((ns for (ns, k, d) in r.events if k == "TestAttemptFailedWillRetry" and d.split(" ")[0] == key_of(t["bin"], t["pkg"], t["name"])), None)
        if kind == "term_timeout":
            if fin_ns is None or ms(fin_ns - t1) > SLACK_HI: V("kill-while-terminating", f"unit under timeout termination (grace 1500 ms) was not killed at once by the shutdown signal: finished {'never' if fin_ns is None else '%.0f ms after it' % ms(fin_ns - t1)}")
            if S != 15 and [s for (s, _) in sigs if s == S]: V("kill-while-terminating", f"unit under timeout termination received {sigs}; a shutdown while terminating must send SIGKILL, not forward the signal")
            for c in children_of(r, p):
                if c.get("end") or c["pid"] in r.survivors: V("survivor", f"descendant of {t['name']} survived")
            continue
        if g == 0:
            if sigs: V("signal", f"{t['name']}: grace period 0, expected SIGKILL at once, but it received {sigs}")
            if p.get("end"): V("signal", f"{t['name']}: grace period 0 but the process exited on its own")
            die = t1
        else:
            if [s for (s, _) in sigs][:1] != [S]: V("signal", f"{t['name']}: received {sigs} after nextest got signal {S}; expected that same signal first")
            elif not (-5 <= sigs[0][1] <= SLACK_HI): V("signal-time", f"{t['name']}: signal {S} forwarded {sigs[0][1]:.0f} ms after nextest received it")
            if len(sigs) > 1: V("signal", f"{t['name']}: received {sigs}; after the first forwarded signal only SIGKILL may follow")
            if kind == "run_die": die = t1
            elif kind == "run_late": die = t1 + (g // 2) * 1e6 if (t2 is None or t2 > t1 + (g // 2) * 1e6) else t2
            else: die = t1 + g * 1e6 if (t2 is None or t2 > t1 + g * 1e6) else t2
        last_death = max(last_death, die)
        if fin_ns is not None:
            d = ms(fin_ns - die)
            note = f"{t['name']} ({kind}, grace {g} ms{', second signal after %d ms' % m['gap2'] if t2 else ''})"
            if d < -SLACK_LO: V("early-kill", f"{note}: finished {-d:.0f} ms before it could have been killed")
            if d > SLACK_HI: V("late-kill", f"{note}: finished {d:.0f} ms after the moment it had to be dead")
        else: V("unfinished", f"{t['name']} has no finished event")
        if kind == "run_ign" and p.get("end"): V("not-killed", f"{t['name']} ignores the signal but recorded its own exit")
        for c in children_of(r, p):
            cs = [s for (_, s) in c["sigs"]]
            if g != 0 and cs[:1] != [S]: V("group", f"descendant of {t['name']} received {cs}, expected the group-wide signal {S}")
            # only a group nextest killed must be gone; a descendant that ignores the forwarded signal while the unit exits on it lives on
            if (kind == "run_ign" or g == 0) and c["pid"] in r.survivors: V("survivor", f"descendant {c['pid']} of {t['name']} is alive after nextest killed its process group")
            if kind == "run_ign" and c.get("end"): V("survivor", f"descendant of {t['name']} outlived the group kill")
    slack = SLACK_HI + 300 + (1500 if any(t["kind"] == "drain" for t in m["tests"]) else 0)
    if ms(r.t1 - last_death) > slack: V("exit-late", f"nextest exited {ms(r.t1 - last_death):.0f} ms after the last unit had to be dead")
    return out


# ------------------------------------------------------------------------------------------------ stop (C12)

STOP_MS = 700
# (stop-shutdown-cont is drawn eight times: the shutdown signal and SIGCONT both reach nextest while it is stopped, and which of the
#  two it handles first once continued is its own choice — tokio's StreamMap polls from a random start)
PHASES = ["run", "timeout", "grace", "delay", "stop-shutdown-cont", "info", "grace-shutdown", "grace-stop-second-shutdown", "grace-twice", "drain", "delay-twice",
          "stop-shutdown-cont", "stop-shutdown-cont", "stop-shutdown-cont", "stop-shutdown-cont", "stop-shutdown-cont", "stop-shutdown-cont", "stop-shutdown-cont",
          "script"]
RETRY_OVERRIDE = """
[[profile.default.overrides]]
filter = 'test(/^delay_/)'
retries = { backoff = "fixed", count = 1, delay = "1500ms" }
"""


def gen_stop(seed, k):
    rng = random.Random(seed * 9151 + k)
    sc = e2e.Scenario(f"stop{k}")
    phase = PHASES[k % len(PHASES)] if k < 2 * len(PHASES) else rng.choice(PHASES)
    tests = []; sigs = []; extra = ""; head = ""
    P, K, G = 400, 3, 300
    def trig_started(t): return "TestStarted " + key_of(t["bin"], t["pkg"], t["name"])
    if phase == "script":
        # a setup script is the running unit when nextest is stopped (no test is running yet): it is a unit like any other — stopped
        # and continued with nextest, its 1200 ms deadline and its reported duration counting its 900 ms of running time only
        sc.scripts.append(("s1", ["ignore:18", "work:900", "exit:0"]))
        head = 'experimental = ["setup-scripts"]\n'
        extra = '[script.s1]\ncommand = ["@VSCRIPT@", "s1"]\n' + 'slow-timeout = { period = "400ms", terminate-after = 3, grace-period = "300ms" }\n' + "[[profile.default.scripts]]\nfilter = 'all()'\nsetup = [\"s1\"]\n"
        t2 = {"bin": "t_two", "pkg": "alpha", "name": "fast_1", "kind": "fast", "run_ms": 30}
        sc.test("t_two", "fast_1", ["work:30", "exit:0"]); tests.append(t2)
        sigs = [("SetupScriptStarted", 1, 300, signal.SIGTSTP), ("SetupScriptStarted", 1, 300 + STOP_MS, signal.SIGCONT)]
    elif phase == "run":
        # runs 900 ms of running time under a 1200 ms deadline: stopped 700 ms in the middle it must still pass, un-signalled
        t = {"bin": "t_one", "pkg": "alpha", "name": "work_0", "kind": "work", "run_ms": 900}
        # (a descendant in the test's process group lives through the stop: the whole group must be stopped, not only its leader)
        sc.test("t_one", "work_0", ["ignore:18", "child:850", "work:900", "exit:0"]); tests.append(t)
        t2 = {"bin": "t_two", "pkg": "alpha", "name": "fast_1", "kind": "fast", "run_ms": 30}
        sc.test("t_two", "fast_1", ["work:30", "exit:0"]); tests.append(t2)
        # (corpus: stopped 300 ms into the first 400 ms period — a resumed period that forgot its length would end the test early)
        d = 300 if k < len(PHASES) else rng.choice([150, 300, 500])
        sigs = [(trig_started(t), 1, d, signal.SIGTSTP), (trig_started(t), 1, d + STOP_MS, signal.SIGCONT)]
    elif phase == "timeout":
        P, K, G = 300, 2, rng.choice([0, 300])
        t = {"bin": "t_one", "pkg": "alpha", "name": "hang_0", "kind": "hang_exit", "deadline": P * K}
        sc.test("t_one", "hang_0", ["ignore:18", "onsig:15:0:0", "hang"]); tests.append(t)
        d = rng.choice([100, 250, 450])
        sigs = [(trig_started(t), 1, d, signal.SIGTSTP), (trig_started(t), 1, d + STOP_MS, signal.SIGCONT)]
    elif phase == "grace":
        P, K, G = 300, 1, 1000
        t = {"bin": "t_one", "pkg": "alpha", "name": "ign_0", "kind": "hang_ign", "deadline": P * K}
        sc.test("t_one", "ign_0", ["ignore:18", "ignore:15", "hang"]); tests.append(t)
        d = rng.choice([200, 400])
        sigs = [("TestSlow .*will_terminate=true", 1, d, signal.SIGTSTP), ("TestSlow .*will_terminate=true", 1, d + STOP_MS, signal.SIGCONT)]
    elif phase == "grace-twice":
        # two stop/continue cycles inside one termination grace period: every timer of the terminate loop must have been resumed by the first
        P, K, G = 300, 1, 2000
        t = {"bin": "t_one", "pkg": "alpha", "name": "ign_0", "kind": "hang_ign", "deadline": P * K}
        sc.test("t_one", "ign_0", ["ignore:18", "ignore:15", "hang"]); tests.append(t)
        tr = "TestSlow .*will_terminate=true"
        sigs = [(tr, 1, 200, signal.SIGTSTP), (tr, 1, 600, signal.SIGCONT), (tr, 1, 1000, signal.SIGTSTP), (tr, 1, 1400, signal.SIGCONT)]
    elif phase == "delay":
        t = {"bin": "t_one", "pkg": "alpha", "name": "delay_0", "kind": "delay", "delay": 1500}
        sc.test("t_one", "delay_0", {"1": ["exit:1"], "2": ["work:40", "exit:0"]}); tests.append(t)
        extra = RETRY_OVERRIDE
        d = rng.choice([200, 600])
        sigs = [("TestAttemptFailedWillRetry", 1, d, signal.SIGTSTP), ("TestAttemptFailedWillRetry", 1, d + STOP_MS, signal.SIGCONT)]
    elif phase == "delay-twice":
        # two stop/continue cycles of 900 ms inside one 1500 ms retry delay: each pause is excluded once, not cumulatively
        t = {"bin": "t_one", "pkg": "alpha", "name": "delay_0", "kind": "delay", "delay": 1500}
        sc.test("t_one", "delay_0", {"1": ["exit:1"], "2": ["work:40", "exit:0"]}); tests.append(t)
        extra = RETRY_OVERRIDE
        tr = "TestAttemptFailedWillRetry"
        sigs = [(tr, 1, 200, signal.SIGTSTP), (tr, 1, 1100, signal.SIGCONT), (tr, 1, 1400, signal.SIGTSTP), (tr, 1, 2300, signal.SIGCONT)]
    elif phase == "stop-shutdown-cont":
        # stopped, then a shutdown signal arrives while stopped, then continued: both are seen together on resumption
        G = 600
        t = {"bin": "t_one", "pkg": "alpha", "name": "ign_0", "kind": "shutdown_ign"}
        sc.test("t_one", "ign_0", ["ignore:18", "ignore:2", "hang"]); tests.append(t)
        sigs = [(trig_started(t), 1, 300, signal.SIGTSTP), (trig_started(t), 1, 300 + 300, signal.SIGINT), (trig_started(t), 1, 300 + STOP_MS, signal.SIGCONT)]
    elif phase == "grace-shutdown":
        # stop during the grace period after a shutdown signal
        G = 1000
        t = {"bin": "t_one", "pkg": "alpha", "name": "ign_0", "kind": "shutdown_grace"}
        sc.test("t_one", "ign_0", ["ignore:18", "ignore:15", "hang"]); tests.append(t)
        sigs = [(trig_started(t), 1, 300, signal.SIGTERM), (trig_started(t), 1, 600, signal.SIGTSTP), (trig_started(t), 1, 600 + STOP_MS, signal.SIGCONT)]
    elif phase == "grace-stop-second-shutdown":
        # shutdown → grace period; stopped during it; a second shutdown signal and SIGCONT arrive together
        G = 3000
        t = {"bin": "t_one", "pkg": "alpha", "name": "ign_0", "kind": "second_shutdown"}
        sc.test("t_one", "ign_0", ["ignore:18", "ignore:2", "hang"]); tests.append(t)
        sigs = [(trig_started(t), 1, 300, signal.SIGINT), (trig_started(t), 1, 600, signal.SIGTSTP), (trig_started(t), 1, 900, signal.SIGINT), (trig_started(t), 1, 600 + STOP_MS, signal.SIGCONT)]
    elif phase == "drain":
        # the test has exited (200 ms in) and a descendant keeps its pipes open for another 600 ms, well inside the 1500 ms leak
        # timeout: nextest is draining the handles when it is stopped (400 ms in) and continued 700 ms later
        LEAK = 1500
        t = {"bin": "t_one", "pkg": "alpha", "name": "drain_0", "kind": "drain", "exit_ms": 200, "hold_ms": 600}
        sc.test("t_one", "drain_0", ["work:200", "child:600", "exit:0"]); tests.append(t)
        sigs = [(trig_started(t), 1, 400, signal.SIGTSTP), (trig_started(t), 1, 400 + STOP_MS, signal.SIGCONT)]
    else:  # info
        t = {"bin": "t_one", "pkg": "alpha", "name": "work_0", "kind": "work", "run_ms": 800}
        sc.test("t_one", "work_0", ["work:800", "exit:0"]); tests.append(t)
        t2 = {"bin": "t_two", "pkg": "alpha", "name": "delay_1", "kind": "delay", "delay": 1500}
        sc.test("t_two", "delay_1", {"1": ["exit:1"], "2": ["work:40", "exit:0"]}); tests.append(t2)
        extra = RETRY_OVERRIDE
        sigs = [(trig_started(t), 1, 300, signal.SIGUSR1), (trig_started(t), 1, 1100, signal.SIGUSR1)]
    sc.config = head + base_config(P, K, G, extra, threads=4, leak=(1500 if phase == "drain" else 200))
    sc.signals = sigs
    sc.timeout_s = 12
    sc.meta = {"tests": tests, "family": "stop", "phase": phase, "P": P, "K": K, "G": G, "leak": 1500 if phase == "drain" else 200}
    if phase == "stop-shutdown-cont": sc.meta["confirm_runs"] = 8
    return sc


def mon_stop(sc, r):
    out = []
    V = lambda kind, what, **kw: out.append(mix.viol(sc, r, kind, what, kw))
    m = sc.meta; phase, P, K, G = m["phase"], m["P"], m["K"], m["G"]
    sent = [(ns, s) for (ns, s) in r.sent if s > 0]
    if len(sent) != len(sc.signals) and not r.hung: return [dict(mix.viol(sc, r, "machinery", f"the supervisor sent {len(sent)} of {len(sc.signals)} signals"), machinery=True)]
    if "panicked" in r.stderr or "internal error" in r.stderr:
        i = r.stderr.find("panicked"); V("panic", f"[{phase}] nextest failed internally: {r.stderr[max(0, i - 50):i + 250]!r}")
    if r.hung: V("hang", f"[{phase}] nextest did not exit within {sc.timeout_s} s (signals sent: {[s for _, s in sent]})"); return out
    t_stop = next((ns for (ns, s) in sent if s == signal.SIGTSTP), None)
    t_cont = next((ns for (ns, s) in sent if s == signal.SIGCONT), None)
    if t_stop is not None:
        st = [x for x in r.stops if x[1] == "stopped"]
        if not st: V("not-stopped", f"[{phase}] nextest never stopped itself after SIGTSTP")
        elif ms(st[0][0] - t_stop) > 100 + SLACK_HI: V("not-stopped", f"[{phase}] nextest stopped itself only {ms(st[0][0] - t_stop):.0f} ms after SIGTSTP")
        paused = [ns for (ns, k, d) in r.events if k == "RunPaused"]; cont = [ns for (ns, k, d) in r.events if k == "RunContinued"]
        ncyc = len([1 for (_, s) in sent if s == signal.SIGTSTP])
        if len(paused) != ncyc or len(cont) != ncyc: V("pause-events", f"[{phase}] RunPaused x{len(paused)}, RunContinued x{len(cont)} for {ncyc} stop/continue cycle(s)")
    stopped_ms = ms(t_cont - t_stop) if t_stop and t_cont else 0
    if phase in ("grace-twice", "delay-twice"):
        tst = [ns for (ns, s) in sent if s == signal.SIGTSTP]; tct = [ns for (ns, s) in sent if s == signal.SIGCONT]
        stopped_ms = sum(ms(c - a) for a, c in zip(tst, tct))
    for t in m["tests"]:
        key = key_of(t["bin"], t["pkg"], t["name"]); ps = tprocs(r, t["bin"], t["name"]); fin = finished(r, key); kind = t["kind"]
        if not ps or not fin: V("once", f"[{phase}] test {t['name']}: {len(ps)} processes, finished={fin}"); continue
        p = ps[0]; st = fin[0]; res, slowflag, taken = st[1], st[2] == "slow", int(st[3][:-2])
        sigs = [(s, ms(ns - p["start"])) for (ns, s) in p["sigs"]]
        alive_during_stop = t_stop is not None and p["start"] < t_stop and (not p.get("end") or p["end"][1] > t_stop)
        if kind == "drain":
            # the process is gone, a descendant holds the pipes: the result and the exit status must not change, nothing may hang or fail
            if res not in ("P", "L"): V("result", f"[{phase}] test {t['name']} exited 0 and its handles were closed {t['hold_ms']} ms later (leak timeout 1500 ms) but is reported {res}")
            if res == "L": V("result-drain", f"[{phase}] test {t['name']}: handles closed {t['hold_ms']} ms after exit, inside the 1500 ms leak timeout, but a stop of {stopped_ms:.0f} ms while nextest was draining them turned the result into LEAK")
            fin_ns = events_for(r, "TestFinished", key)[-1][0]
            wall = ms(fin_ns - p["start"])
            if t_stop and t_cont and p["start"] < t_stop and t_cont < fin_ns and taken > wall - stopped_ms + 300:
                V("duration-drain", f"[{phase}] test {t['name']}: reported duration {taken} ms; {wall:.0f} ms passed between its start and its end, of which nextest was stopped for {stopped_ms:.0f} ms (while draining the handles of the exited process): time spent stopped must be excluded from reported durations")
            continue
        if alive_during_stop and kind not in ("delay", "second_shutdown"):
            gaps = [g for (_, g) in p.get("gaps", [])]
            if not gaps or (sum(gaps) if phase == "grace-twice" else max(gaps)) < stopped_ms - 250: V("test-not-stopped", f"[{phase}] test {t['name']} was not stopped while nextest was (gaps in its own clock: {gaps}, nextest stopped {stopped_ms:.0f} ms)")
            if 18 not in [s for (s, _) in sigs]: V("test-not-continued", f"[{phase}] test {t['name']} never received SIGCONT (signals {sigs})")
        if kind == "work" and phase == "run" and alive_during_stop:
            # its descendant (same process group) must have been stopped with it
            for c in [q for q in r.procs if q.get("child") and q.get("ppid") == p.get("pid") and q.get("start") and q["start"] < t_stop and (not q.get("end") or q["end"][1] > t_stop)]:
                cg = [g for (_, g) in c.get("gaps", [])]
                if not cg or max(cg) < stopped_ms - 250: V("group-not-stopped", f"[{phase}] a descendant (pid {c.get('pid')}, same process group) of test {t['name']} kept running while nextest and the test were stopped for {stopped_ms:.0f} ms (gaps in its own clock: {cg}): SIGTSTP must stop the test's whole process group")
        if kind == "work":
            if res != "P": V("result", f"[{phase}] test {t['name']} needs {t['run_ms']} ms of running time (deadline {K * P} ms) but is reported {res}")
            if [s for (s, _) in sigs if s in (15, 9)]: V("signalled", f"[{phase}] test {t['name']} was signalled {sigs}: time spent stopped was charged against its slow-timeout")
            if phase == "run":
                if taken > t["run_ms"] + 350: V("duration", f"[{phase}] test {t['name']}: reported duration {taken} ms for {t['run_ms']} ms of running time (stopped {stopped_ms:.0f} ms must be excluded)")
                if taken < t["run_ms"] - SLACK_LO: V("duration", f"[{phase}] test {t['name']}: reported duration {taken} ms < {t['run_ms']} ms of running time")
        elif kind == "hang_exit":
            if res != "T": V("result", f"[{phase}] hanging test is reported {res}, expected a timeout")
            term = [at for (s, at) in sigs if s == 15]
            wall_deadline = t["deadline"] + (stopped_ms if alive_during_stop else 0)
            if G > 0:
                if not term: V("signal", f"[{phase}] no SIGTERM at the deadline (signals {sigs})")
                else:
                    if term[0] < wall_deadline - SLACK_LO - 60: V("early", f"[{phase}] SIGTERM {term[0]:.0f} ms after start: deadline {t['deadline']} ms of running time + {stopped_ms:.0f} ms stopped = {wall_deadline:.0f} ms")
                    if term[0] > wall_deadline + SLACK_HI: V("late", f"[{phase}] SIGTERM only {term[0]:.0f} ms after start, expected about {wall_deadline:.0f} ms: the slow-timeout clock did not resume properly")
            if abs(taken - t["deadline"]) > SLACK_HI // 2 + 100: V("duration", f"[{phase}] reported duration {taken} ms, expected about {t['deadline']} ms of running time")
        elif kind == "hang_ign":
            if res != "T": V("result", f"[{phase}] test ignoring SIGTERM is reported {res}, expected a timeout")
            fin_ns = events_for(r, "TestFinished", key)[-1][0]
            want = t["deadline"] + G + stopped_ms
            got = ms(fin_ns - p["start"])
            if got < want - SLACK_LO - 100: V("early", f"[{phase}] killed {got:.0f} ms after start; deadline {t['deadline']} + grace {G} + stopped {stopped_ms:.0f} = {want:.0f} ms")
            if got > want + SLACK_HI: V("late", f"[{phase}] killed only {got:.0f} ms after start, expected about {want:.0f} ms: the grace-period clock did not resume")
            if p.get("end"): V("not-killed", f"[{phase}] test recorded its own exit")
        elif kind == "delay":
            if len(ps) != 2: V("retry", f"[{phase}] test {t['name']}: {len(ps)} attempts, expected 2"); continue
            gap = ms(ps[1]["start"] - ps[0]["end"][1]) if ps[0].get("end") else None
            in_delay = t_stop is not None and ps[0].get("end") and ps[0]["end"][1] < t_stop < ps[1]["start"]
            want = t["delay"] + (stopped_ms if t_stop is not None else 0)
            if gap is not None and gap < want - SLACK_LO - 100: V("delay-short", f"[{phase}] retry started {gap:.0f} ms after the failed attempt; delay {t['delay']} ms + {stopped_ms:.0f} ms stopped = {want:.0f} ms")
            if gap is not None and gap > want + SLACK_HI: V("delay-long", f"[{phase}] retry started only {gap:.0f} ms after the failed attempt, expected about {want:.0f} ms: the retry-delay clock did not resume")
        elif kind == "second_shutdown":
            if r.exit != 100: V("exit", f"[{phase}] nextest exit status {r.exit}, expected 100")
            fin = events_for(r, "TestFinished", key)
            t_second = [ns for (ns, s) in sent if s == signal.SIGINT][1]
            if fin and ms(fin[-1][0] - max(t_second, t_cont)) > SLACK_HI: V("late", f"[{phase}] the second shutdown signal did not kill the test at once (finished {ms(fin[-1][0] - max(t_second, t_cont)):.0f} ms after it could be handled)")
        elif kind in ("shutdown_ign", "shutdown_grace"):
            S = 2 if kind == "shutdown_ign" else 15
            if S not in [s for (s, _) in sigs]: V("signal", f"[{phase}] test never received the shutdown signal {S} (signals {sigs})")
            if p.get("end"): V("not-killed", f"[{phase}] test ignoring the shutdown signal recorded its own exit")
            if r.exit != 100: V("exit", f"[{phase}] nextest exit status {r.exit}, expected 100")
            fin_ns = events_for(r, "TestFinished", key)[-1][0]
            t_sh = next(ns for (ns, s) in sent if s == S)
            # grace counts running time: from the later of (shutdown, continue) when shut down while stopped; + stopped time when stopped during grace
            base = max(t_sh, t_cont) if kind == "shutdown_ign" else t_sh + stopped_ms * 1e6
            got = ms(fin_ns - base)
            if got < G - SLACK_LO - 100: V("early", f"[{phase}] killed {got:.0f} ms into a {G} ms grace period (running time)")
            if got > G + SLACK_HI: V("late", f"[{phase}] killed {got:.0f} ms after the grace period began (grace {G} ms): the grace clock did not resume")
    if phase == "script":
        sp = sorted([p for p in r.procs if p.get("bin") == "vscript" and p.get("start") and not p.get("child")], key=lambda p: p["start"])
        sfin = [d for (ns, k, d) in r.events if k == "SetupScriptFinished"]
        if len(sp) != 1 or len(sfin) != 1: V("once", f"[{phase}] setup script: {len(sp)} processes, {len(sfin)} SetupScriptFinished events")
        else:
            p = sp[0]; res, taken = sfin[0].split(" ")[2], int(sfin[0].split(" ")[4][:-2])
            sigs = [(s, ms(ns - p["start"])) for (ns, s) in p["sigs"]]
            gaps = [g for (_, g) in p.get("gaps", [])]
            if not gaps or max(gaps) < stopped_ms - 250: V("test-not-stopped", f"[{phase}] the setup script was not stopped while nextest was (gaps in its own clock: {gaps}, nextest stopped {stopped_ms:.0f} ms): every running unit's process group is stopped, and a setup script is a unit")
            if 18 not in [s for (s, _) in sigs]: V("test-not-continued", f"[{phase}] the setup script never received SIGCONT (signals {sigs})")
            if res != "P": V("result", f"[{phase}] the setup script needs 900 ms of running time (deadline 1200 ms) but is reported {res}")
            if [s for (s, _) in sigs if s in (15, 9)]: V("signalled", f"[{phase}] the setup script was signalled {sigs}: time spent stopped was charged against its slow-timeout")
            if taken > 900 + 350: V("duration", f"[{phase}] setup script: reported duration {taken} ms for 900 ms of running time (stopped {stopped_ms:.0f} ms must be excluded)")
            if taken < 900 - SLACK_LO: V("duration", f"[{phase}] setup script: reported duration {taken} ms < 900 ms of running time")
        if r.exit != 0: V("exit", f"[{phase}] exit status {r.exit}, expected 0 (stop/continue must not change results)")
    if phase == "info":
        starts = [(ns, d) for (ns, k, d) in r.events if k == "InfoStarted"]
        resp = [(ns, d) for (ns, k, d) in r.events if k == "InfoResponse"]
        if len(starts) != 2: V("info", f"{len(starts)} InfoStarted events for 2 SIGUSR1")
        # first request: work_0 Running, delay_1 in its delay; second: work_0 finished (800 ms) → only delay_1
        for i, (ns0, d0) in enumerate(starts):
            ns1 = starts[i + 1][0] if i + 1 < len(starts) else float("inf")
            rs = [d for (ns, d) in resp if ns0 <= ns < ns1]
            who = [d.split(" ")[1] for d in rs]
            if len(set(who)) != len(who): V("info-once", f"information request {i + 1}: a unit answered more than once: {rs}")
            for d in rs:
                unit, state = d.split(" ")[1], d.split(" ")[2]
                if hx("work_0") in unit and state not in ("Running", "Exiting", "Exited"): V("info-state", f"request {i + 1}: work_0 reported {state} while running")
                if hx("delay_1") in unit and state not in ("DelayBeforeNextAttempt", "Running", "Exiting", "Exited"): V("info-state", f"request {i + 1}: delay_1 reported {state}")
            if i == 0 and not any(hx("delay_1") in d and "DelayBeforeNextAttempt" in d for d in rs): V("info-state", f"request 1 (300 ms in): delay_1 is waiting out its retry delay but answered {rs}")
            if i == 0 and not any(hx("work_0") in d and "Running" in d for d in rs): V("info-state", f"request 1 (300 ms in): work_0 is running but answered {rs}")
        if r.exit != 0: V("exit", f"information requests changed the outcome: exit {r.exit}")
    if phase in ("run", "delay", "drain", "delay-twice") and r.exit != 0: V("exit", f"[{phase}] exit status {r.exit}, expected 0 (stop/continue must not change results)")
    if phase in ("timeout", "grace", "grace-twice") and r.exit != 100: V("exit", f"[{phase}] exit status {r.exit}, expected 100")
    return out


# ------------------------------------------------------------------------------------------------ cancel (C10 / C07)

def gen_cancel(seed, k):
    rng = random.Random(seed * 4447 + k)
    sc = e2e.Scenario(f"cancel{k}")
    variant = ["cancel-then-delay", "delay-then-cancel", "timeout-counts", "max-fail-2", "no-fail-fast", "leak-window", "grace-cancel", "report-fails-in-delay"][k % 8]
    tests = []; extra = ""; threads = 4; ff = "true"; P, K, G = 60000, None, 300
    delay = 3000; leak = 200
    if variant == "report-fails-in-delay":
        # nextest's terminal goes away while A (which fails, and has a retry after a 4 s delay) is running: the first write that
        # fails is the report of A's failed attempt — reporting has failed, the run is cancelled for that reason (fail-fast is off),
        # and A, sitting in its retry delay, must be told so: the run ends now, not 4 s later
        delay = 4000; ff = "false"; threads = 2
        sc.test("t_one", "a_retry", {"1": ["work:400", "exit:1"], "2": ["exit:0"]}); tests.append({"bin": "t_one", "pkg": "alpha", "name": "a_retry", "kind": "retry-report"})
        extra = "\n[[profile.default.overrides]]\nfilter = 'test(a_retry)'\nretries = { backoff = \"fixed\", count = 1, delay = \"%dms\" }\n" % delay
        sc.close_stderr_on = "TestStarted "
    elif variant == "grace-cancel":
        # A has timed out and sits in its termination grace period (it ignores SIGTERM) when B's failure cancels the run: a non-signal
        # cancellation leaves running units alone, so A is killed at the END of its grace period, not when the cancellation arrives
        P, K, G = 300, 1, 2000; b_ms = rng.choice([800, 1000])
        sc.test("t_one", "a_grace", ["ignore:15", "hang"]); tests.append({"bin": "t_one", "pkg": "alpha", "name": "a_grace", "kind": "grace", "deadline": P * K, "G": G})
        sc.test("t_two", "b_fail", [f"work:{b_ms}", "exit:1"]); tests.append({"bin": "t_two", "pkg": "alpha", "name": "b_fail", "kind": "fail"})
    elif variant == "leak-window":
        # A has exited 0 but a descendant keeps its pipes open well past the leak timeout; B's failure (fail-fast) arrives
        # while nextest is still waiting for A's pipes: A is nevertheless a leaky pass, and must be reported as such
        leak = 1200; b_ms = rng.choice([300, 500])
        sc.test("t_one", "a_leaky", ["child:4000", "exit:0"]); tests.append({"bin": "t_one", "pkg": "alpha", "name": "a_leaky", "kind": "leaky"})
        sc.test("t_two", "b_fail", [f"work:{b_ms}", "exit:1"]); tests.append({"bin": "t_two", "pkg": "alpha", "name": "b_fail", "kind": "fail"})
    elif variant == "cancel-then-delay":
        # A is still running when B's failure cancels the run; A then fails: its retry delay must not be sat out
        a_ms = rng.choice([500, 800]); b_ms = rng.choice([100, 250])
        sc.test("t_one", "a_retry", {"1": [f"work:{a_ms}", "exit:1"], "2": ["exit:0"]}); tests.append({"bin": "t_one", "pkg": "alpha", "name": "a_retry", "kind": "retry-late"})
        sc.test("t_two", "b_fail", [f"work:{b_ms}", "exit:1"]); tests.append({"bin": "t_two", "pkg": "alpha", "name": "b_fail", "kind": "fail"})
        extra = "\n[[profile.default.overrides]]\nfilter = 'test(a_retry)'\nretries = { backoff = \"fixed\", count = 1, delay = \"%dms\" }\n" % delay
    elif variant == "delay-then-cancel":
        b_ms = rng.choice([300, 600])
        sc.test("t_one", "a_retry", {"1": ["exit:1"], "2": ["exit:0"]}); tests.append({"bin": "t_one", "pkg": "alpha", "name": "a_retry", "kind": "retry-early"})
        sc.test("t_two", "b_fail", [f"work:{b_ms}", "exit:1"]); tests.append({"bin": "t_two", "pkg": "alpha", "name": "b_fail", "kind": "fail"})
        extra = "\n[[profile.default.overrides]]\nfilter = 'test(a_retry)'\nretries = { backoff = \"fixed\", count = 1, delay = \"%dms\" }\n" % delay
    elif variant == "timeout-counts":
        threads = 1; P, K, G = 300, 1, 0
        sc.test("t_one", "a_timeout", ["hang"]); tests.append({"bin": "t_one", "pkg": "alpha", "name": "a_timeout", "kind": "timeout"})
        sc.test("t_two", "b_pass", ["exit:0"]); tests.append({"bin": "t_two", "pkg": "alpha", "name": "b_pass", "kind": "never"})
        sc.test("t_three", "c_pass", ["exit:0"]); tests.append({"bin": "t_three", "pkg": "beta", "name": "c_pass", "kind": "never"})
    elif variant == "max-fail-2":
        threads = 1; ff = "{ max-fail = 2 }"
        for i, (b, pkg) in enumerate([("t_one", "alpha"), ("t_one", "alpha"), ("t_two", "alpha"), ("t_three", "beta")]):
            n = f"t{i}_" + ("fail" if i in (0, 2) else "pass")
            sc.test(b, n, ["exit:1" if i in (0, 2) else "exit:0"]); tests.append({"bin": b, "pkg": pkg, "name": n, "kind": "ordered", "idx": i})
        # listed but not selected (ignored), sorting after every selected test: they must be reported skipped although the run is cancelled first
        for n in ("zz_ignored_1", "zz_ignored_2"):
            sc.test("t_three", n, ["exit:0"], ignored=True); tests.append({"bin": "t_three", "pkg": "beta", "name": n, "kind": "unselected", "idx": 9})
    else:
        threads = 1; ff = "false"
        for i, (b, pkg) in enumerate([("t_one", "alpha"), ("t_two", "alpha"), ("t_three", "beta")]):
            n = f"t{i}_fail"; sc.test(b, n, ["exit:1"]); tests.append({"bin": b, "pkg": pkg, "name": n, "kind": "all-run"})
    sc.config = base_config(P, K, G, extra, threads=threads, fail_fast="true" if ff == "true" else ff, leak=leak)
    sc.timeout_s = 30
    sc.meta = {"tests": tests, "family": "cancel", "variant": variant, "delay": delay}
    return sc


def mon_cancel(sc, r):
    out = []
    V = lambda kind, what, **kw: out.append(mix.viol(sc, r, kind, what, kw))
    m = sc.meta; variant = m["variant"]
    if r.hung: V("hang", f"[{variant}] nextest did not exit"); return out
    cancels = [(ns, d) for (ns, k, d) in r.events if k == "RunBeginCancel"]
    procs = [p for p in r.procs if p.get("start") and not p.get("child") and "--exact" in p.get("argv", [])]
    last_end = max([p["end"][1] for p in procs if p.get("end")], default=r.t0)
    if variant == "report-fails-in-delay":
        will = [ns for (ns, k, d) in r.events if k == "TestAttemptFailedWillRetry"]
        if not will: return [dict(mix.viol(sc, r, "machinery", f"[{variant}] the first attempt's failure was not reported (events {[k for _, k, _ in r.events][:8]})"), machinery=True)]
        if not cancels or not cancels[0][1].startswith("ReportError"):
            # the write that failed was not the one intended (or none failed): nothing to evaluate
            return [dict(mix.viol(sc, r, "machinery", f"[{variant}] no cancellation for a reporting failure began: {[d for _, d in cancels]}"), machinery=True)]
        a = tprocs(r, "t_one", "a_retry")
        if len(a) != 1: V("retry-after-cancel", f"[{variant}] a_retry ran {len(a)} attempts; its retry must not start once the run is cancelled (reporting failed)")
        over = ms(r.t1 - will[0])
        if over > SLACK_HI + 500: V("sat-out-delay", f"[{variant}] reporting failed (the terminal went away) when a_retry's failed attempt was reported, and the run ended only {over:.0f} ms later (retry delay {m['delay']} ms): a cancelled run must not sit out retry delays, whatever the cause")
        for (ns, k, d) in r.events:
            if k in ("TestStarted", "TestRetryStarted") and ns > cancels[0][0]: V("start-after-cancel", f"[{variant}] {k} emitted after cancellation began: {d}")
        return out
    if variant == "no-fail-fast":
        if cancels: V("cancelled", f"[{variant}] fail-fast = false but the run was cancelled: {cancels}")
        if len(procs) != 3: V("not-all-run", f"[{variant}] {len(procs)} of 3 tests ran")
        if r.exit != 100: V("exit", f"[{variant}] exit {r.exit}")
        return out
    if not cancels or not cancels[0][1].startswith("TestFailure"): V("no-cancel", f"[{variant}] cancellation for test failure did not begin: {[d for _, d in cancels]}"); return out
    tc = cancels[0][0]
    if r.exit != 100: V("exit", f"[{variant}] exit status {r.exit}, expected 100")
    for p in procs:
        if p["start"] > tc + 30e6: V("start-after-cancel", f"[{variant}] a test process ({p['argv'][1]}, attempt {p['env'].get('__NEXTEST_ATTEMPT')}) started {ms(p['start'] - tc):.0f} ms after cancellation began")
    for (ns, k, d) in r.events:
        if k in ("TestStarted", "TestRetryStarted") and ns > tc: V("start-after-cancel", f"[{variant}] {k} emitted after cancellation began: {d}")
    if variant in ("cancel-then-delay", "delay-then-cancel"):
        a = tprocs(r, "t_one", "a_retry")
        if len(a) != 1: V("retry-after-cancel", f"[{variant}] a_retry ran {len(a)} attempts; its retry must not start once the run is cancelled")
        over = ms(r.t1 - last_end)
        if over > SLACK_HI + 300: V("sat-out-delay", f"[{variant}] the run ended {over:.0f} ms after the last running test had ended (retry delay {m['delay']} ms): a cancelled run must not sit out retry delays")
    if variant == "grace-cancel":
        t = m["tests"][0]; ps = tprocs(r, "t_one", "a_grace"); evf = events_for(r, "TestFinished", key_of("t_one", "alpha", "a_grace"))
        if ps and evf:
            lived = ms(evf[-1][0] - ps[0]["start"]); want = t["deadline"] + t["G"]
            if lived < want - SLACK_LO - 100: V("early-kill", f"[{variant}] a_grace (ignores SIGTERM; deadline {t['deadline']} ms + grace {t['G']} ms) ended {lived:.0f} ms after its start: the test-failure cancellation at {ms(tc - ps[0]['start']):.0f} ms must leave a unit that is already running alone — only a signal kills it early")
        elif not r.hung: V("early-kill", f"[{variant}] a_grace: {len(ps)} processes, finished events {len(evf)}")
    if variant == "leak-window":
        fin = finished(r, key_of("t_one", "alpha", "a_leaky"))
        if not fin: V("result", f"[{variant}] a_leaky has no final result")
        elif fin[-1][1] != "L": V("result", f"[{variant}] a_leaky exited 0 while a descendant held its output pipes for 4000 ms (leak timeout 1200 ms); it is reported {fin[-1][1]}, expected a leaky pass (L) — the cancellation arrived while its pipes were being watched")
    if variant == "timeout-counts":
        for t in m["tests"]:
            if t["kind"] == "never" and tprocs(r, t["bin"], t["name"]): V("start-after-cancel", f"[{variant}] {t['name']} ran although the first test's timeout is the failure that triggers fail-fast")
    if variant == "max-fail-2":
        ran = sorted(p["argv"][1] for p in procs)
        want = sorted(t["name"] for t in m["tests"] if t["idx"] <= 2)
        if ran != want: V("max-fail", f"[{variant}] tests run {ran}; with max-fail = 2 and one thread exactly {want} run (cancellation begins at the 2nd failure)")
    return out


def mon_skipped(sc, r):
    """C02: every listed test that is not selected is reported skipped exactly once and never spawned — cancelled run or not"""
    out = []
    if r.hung: return out
    for t in sc.meta["tests"]:
        if t.get("kind") != "unselected": continue
        key = key_of(t["bin"], t["pkg"], t["name"])
        n = len(events_for(r, "TestSkipped", key))
        if n != 1: out.append(mix.viol(sc, r, "skipped", f"[{sc.meta.get('variant')}] listed but unselected test {t['name']} is reported skipped {n} times (must be exactly once, also when the run is cancelled)"))
        if tprocs(r, t["bin"], t["name"]): out.append(mix.viol(sc, r, "skipped", f"unselected test {t['name']} was spawned"))
    return out


# ------------------------------------------------------------------------------------------------ the unit model as oracle

SIGLET = {2: "HI", 15: "HT", 1: "HH", 3: "HQ"}


def unit_events(sc, r, t, p):
    """The event list the unit of test `t` saw, from the scenario script (what the process does) and the observed
    moments of the injected signals (relative to the process start); None if this unit is not modelled."""
    m = sc.meta; fam = m["family"]; kind = t["kind"]
    rel = lambda ns: max(0, int(round(ms(ns - p["start"]))))
    sent = [(ns, s) for (ns, s) in r.sent if s > 0]
    big = 60000
    if fam == "slow":
        P, K, G = t["P"], t["K"], t["G"]; D = K * P if K else None
        if kind in ("fast", "long_ok"): return ("spawn", P, K, G, [f"t{t['dur']}", "X", "F"])
        if kind in ("hang_exit", "hang_default", "hang_out"): return ("spawn", P, K, G, [f"t{D}", "X", "F"])
        if kind == "hang_late": return ("spawn", P, K, G, [f"t{D + (G // 2 if G else 0)}", "X", "F"])
        if kind == "hang_ign": return ("spawn", P, K, G, [f"t{D + G}", "X", "F"])
    if fam == "stop":
        P, K, G = m["P"], m["K"], m["G"]; phase = m["phase"]
        ts = next((ns for (ns, s) in sent if s == signal.SIGTSTP), None); tc = next((ns for (ns, s) in sent if s == signal.SIGCONT), None)
        if phase in ("run", "timeout", "grace", "grace-twice") and ts and tc and kind != "fast":
            tst = [ns for (ns, s) in sent if s == signal.SIGTSTP]; tct = [ns for (ns, s) in sent if s == signal.SIGCONT]
            if len(tst) != len(tct): return None
            ev = []; ran = 0; prev = p["start"]
            for a_ns, c_ns in zip(tst, tct):
                a = max(0, int(round(ms(a_ns - prev)))); st = int(round(ms(c_ns - a_ns)))
                ev += [f"t{a}", "S", f"t{st}", "C"]; ran += a; prev = c_ns
            if kind == "work": rest = max(0, t["run_ms"] - ran)
            elif kind == "hang_exit": rest = max(0, t["deadline"] - ran)
            else: rest = max(0, t["deadline"] + G - ran)
            return ("spawn", P, K, G, ev + [f"t{rest}", "X", "F"])
        if phase == "drain" and ts and tc and kind == "drain" and p.get("end"):
            # the process exits, nextest drains its handles (held by a descendant), is stopped and continued meanwhile; the handles
            # are closed `hold_ms` after the exit — seen by nextest then, or on resumption if that falls into the stop
            ex = rel(p["end"][1]); a = max(ex, rel(ts)); st = int(round(ms(tc - ts)))
            closed = ex + t["hold_ms"]
            rest = max(0, closed - (a + st))
            return ("spawn", P, K, G, [f"t{ex}", "X", f"t{a - ex}", "S", f"t{st}", "C", f"t{rest}", "F"])
        if phase == "delay" and ts and tc and kind == "delay":
            return None   # handled by delay_events
    if fam == "sig" and m["phase"] == "running" and kind in ("run_die", "run_ign", "run_late"):
        G = t["G"]; S = m["S"]
        a = rel(sent[0][0]); ev = [f"t{a}", SIGLET[S]]
        die = 0 if (kind == "run_die" or G == 0) else (G // 2 if kind == "run_late" else G)
        if len(sent) > 1:
            gap = int(round(ms(sent[1][0] - sent[0][0])))
            if die > gap: ev += [f"t{gap}", "K", "X", "F"]
            else: ev += [f"t{die}", "X", "F"]
        else: ev += [f"t{die}", "X", "F"]
        return ("spawn", 60000, None, G, ev)
    return None


def mon_model(sc, r):
    """Correspondence: the unit model's prediction (signals with times, slow events, time-out, slow mark, running time)
    against what the process recorded and nextest reported."""
    out = []
    V = lambda kind, what, **kw: out.append(mix.viol(sc, r, kind, what, kw))
    if r.hung: return out
    reqs = []
    for t in sc.meta["tests"]:
        ps = tprocs(r, t["bin"], t["name"])
        if len(ps) < 1: continue
        ue = unit_events(sc, r, t, ps[0])
        if ue is None: continue
        start, P, K, G, ev = ue
        reqs.append((t, ps[0], f"unit {start} {P} {K if K else '-'} {G} {sc.meta.get('leak', 200)} {','.join(ev)}"))
    if not reqs: return out
    try: answers = vlib.run_driver([q for (_, _, q) in reqs])
    except RuntimeError as e: return [mix.viol(sc, r, "protocol", f"model driver failed: {e}")]
    for (t, p, q), ans in zip(reqs, answers):
        if ans == "bad-op": out.append(mix.viol(sc, r, "protocol", f"model driver rejected {q}")); continue
        f = ans.split(" "); acts = [] if f[0] == "." else f[0].split(",")
        fin = finished(r, key_of(t["bin"], t["pkg"], t["name"]))
        if not fin: continue
        st = fin[0]; res, slowflag, taken = st[1], st[2] == "slow", int(st[3][:-2])
        info = dict(x.split("=") for x in f[1:])
        if "PANIC" in ans: V("model", f"the unit model reaches an illegal timer transition on {q}: {ans}")
        # catchable signals in order, with times
        want = [(int(a[4:a.index("@")]), int(a[a.index("@") + 1:])) for a in acts if a.startswith("kill") and int(a[4:a.index("@")]) not in (9, 18, 20)]
        got = [(s, ms(ns - p["start"])) for (ns, s) in p["sigs"] if s not in (18, 20)]
        if t["kind"] == "hang_default": want = got = []      # dies by the default action: it cannot record the signal
        if [s for s, _ in want] != [s for s, _ in got]: V("model", f"test {t['name']} ({t['kind']}): received signals {[(s, int(a)) for s, a in got]}, the unit model predicts {want}  [{q}]")
        else:
            for (s, tw), (_, tg) in zip(want, got):
                if tg < tw - SLACK_LO - 60 or tg > tw + SLACK_HI: V("model", f"test {t['name']} ({t['kind']}): signal {s} at {tg:.0f} ms, the unit model predicts {tw} ms  [{q}]")
        k9 = [int(a[a.index("@") + 1:]) for a in acts if a.startswith("kill9@")]
        if k9 and p.get("end"): V("model", f"test {t['name']} ({t['kind']}): the unit model predicts SIGKILL at {k9[0]} ms but the process recorded its own exit  [{q}]")
        if (info["timeout"] == "1") != (res == "T"): V("model", f"test {t['name']} ({t['kind']}): reported {res}, the unit model says timed out = {info['timeout']}  [{q}]")
        if (info["slow"] == "1") != slowflag and not (t.get("dur") and abs(t["dur"] - t.get("P", 0)) < 120): V("model", f"test {t['name']} ({t['kind']}): slow mark {slowflag}, the unit model says {info['slow']}  [{q}]")
        act = int(info["active"])
        if taken < act - SLACK_LO - 60 or taken > act + SLACK_HI: V("model", f"test {t['name']} ({t['kind']}): reported duration {taken} ms, the unit model predicts {act} ms of running time  [{q}]")
        wslow = [(int(a[4:a.index(":")]), a[a.index(":") + 1] == "1") for a in acts if a.startswith("slow")]
        gslow = [(int(d.split(" ")[2][:-2]), d.split(" ")[3] == "will_terminate=true") for (ns, d) in events_for(r, "TestSlow", key_of(t["bin"], t["pkg"], t["name"]))]
        if sc.meta["family"] in ("slow", "stop") and wslow != gslow: V("model", f"test {t['name']} ({t['kind']}): TestSlow events {gslow}, the unit model predicts {wslow}  [{q}]")
    return out


def system_request(sc, r):
    """The observed history as an action list of the dispatcher × units system (Model/System): every event the dispatcher
    emitted is preceded by the unit action that sent it ("send immediately before delivery" is a run of the system whenever the
    history is one, because the executor → dispatcher channel is FIFO); shutdown signals and reporter errors are external
    actions.  Returns (request, expected emitted sequence, key → index) or None when the scenario has setup scripts."""
    if getattr(sc, "scripts", None): return None
    idx = {}
    def ix(key):
        if key not in idx: idx[key] = len(idx)
        return idx[key]
    cfgtxt = sc.config + " " + " ".join(sc.cli)
    mf = "1"
    mm = re.search(r"max-fail\s*=\s*(\d+)", cfgtxt) or re.search(r"--max-fail[= ](\d+)", cfgtxt)
    if mm: mf = mm.group(1)
    elif re.search(r"fail-fast\s*=\s*false", cfgtxt) or "--no-fail-fast" in cfgtxt: mf = "a"
    acts, want = [], []
    def res_of(st):
        # the event tap's result token in the driver's protocol: `FSUnixSignal(9)` / `FSlUnixSignal(9)` → `FS9`
        tok = st.split(":")[1]
        mm_ = re.match(r"^FSl?\w*\((\d+)\)$", tok)
        return f"FS{mm_.group(1)}" if mm_ else tok
    slow_of = lambda st: "1" if st.split(":")[2] == "slow" else "0"
    nsig = 0
    for (ns, k, d) in r.events:
        f = d.split(" ")
        if k == "TestStarted":
            i = ix(f[0]); acts += [f"D{i}", "V"]; want.append(f"TestStarted({i})")
        elif k == "TestAttemptFailedWillRetry":
            i = ix(f[0]); st = f[1]
            acts += [f"A:{i}:{res_of(st)}:{slow_of(st)}", "V"]; want.append(f"TestAttemptFailedWillRetry({i},{res_of(st)})")
        elif k == "TestRetryStarted":
            i = ix(f[0]); acts += [f"X{i}", "V"]; want.append(f"TestRetryStarted({i})")
        elif k == "TestFinished":
            i = ix(f[0]); sts = d[d.index("[") + 1:d.index("]")].split(",")
            last = sts[-1].strip()
            acts += [f"F:{i}:{res_of(last)}:{slow_of(last)}", "V"]
            want.append(f"TestFinished({i},{','.join(res_of(x.strip()) for x in sts)})")
        elif k == "RunBeginCancel":
            reason = f[0]
            want.append(f"RunBeginCancel({reason})")
            if reason in ("Signal", "Interrupt"):
                sent = [s_ for (_, s_) in r.sent if s_ in (2, 15, 1, 3)]
                sg = {2: 0, 15: 1, 1: 2, 3: 3}[sent[nsig]] if nsig < len(sent) else (0 if reason == "Interrupt" else 1)
                nsig += 1
                acts.append(f"E:X:{sg}")
            elif reason == "ReportError": acts.append("E:RC")
            # TestFailure: emitted by the delivery of the failing test's Finished, already in `acts`
        elif k == "RunBeginKill":
            want.append("RunBeginKill")
            sent = [s_ for (_, s_) in r.sent if s_ in (2, 15, 1, 3)]
            sg = {2: 0, 15: 1, 1: 2, 3: 3}[sent[nsig]] if nsig < len(sent) else 0
            nsig += 1
            acts.append(f"E:X:{sg}")
    n = max(len(idx), len([t for t in sc.meta.get("tests", [])]))
    return f"sys {n} {mf} {','.join(acts) if acts else '.'}", want, idx


def mon_system(sc, r):
    """Correspondence of the composition: the history nextest produced is a run of the dispatcher × units system — every action is
    enabled in the model when it happens in the history, and the model's dispatcher emits the same events in the same order."""
    out = []
    if r.hung: return out
    q = system_request(sc, r)
    if q is None: return out
    req, want, idx = q
    if req.endswith(" ."): return out
    try: ans = vlib.run_driver([req])[0]
    except RuntimeError as e: return [mix.viol(sc, r, "protocol", f"model driver failed: {e}")]
    if ans == "bad-op": return [mix.viol(sc, r, "protocol", f"model driver rejected {req[:300]}")]
    got = ans.split(" ## ")[0]
    got = [] if got == "." else got.split(";")
    # a second shutdown signal that arrives with the run already at the signal level is announced only as RunBeginKill
    if got != want:
        k = next((j for j, (a, b) in enumerate(zip(got, want)) if a != b), min(len(got), len(want)))
        out.append(mix.viol(sc, r, "system", f"the history is not a run of the dispatcher × units system model: at event {k} nextest reports {want[k] if k < len(want) else 'nothing more'}, the model {got[k] if k < len(got) else 'nothing more'} (model request: {req[:400]})", {"request": req, "model": ans, "history": want}))
    return out


# ------------------------------------------------------------------------------------------------ the timer primitive, in-process

def run_timer(seed, tier):
    """p_timer: the real PausableSleep on a paused tokio clock against Model/Unit.PSleep."""
    from props import common
    n = 400 if tier == "quick" else 40000
    r = common.run_streams([("p_timer", [seed, n])])
    items = [([b, args, idx], req, impl) for (b, args, idx, req, impl) in r.cases]
    mism, _ = common.compare(items, None)
    violations = []
    for m in mism:
        f = m["req"].split(" ")
        if f[0] == "swatch":
            recs = f[1].split(","); snaps = [x for x in recs if x.startswith("s")]; b = m["model"].split(",")
            k = next((j for j, y in enumerate(b) if y != "in"), 0)
            hist = recs[:recs.index(snaps[k]) + 1] if k < len(snaps) else recs
            val = snaps[k].split(":")[2] if k < len(snaps) else "?"
            violations.append({"what": f"StopwatchStart: after the operations {' '.join(x[0] + '@' + x[1:].split(':')[0] for x in hist)} (n new, p pause, r resume, s snapshot; @ the harness's clock in µs) snapshot().active is {val} µs, "
                                       f"but the time that passed while the watch was not paused lies in [{b[k].split(':')[1] if b[k].startswith('out') else '?'}, {b[k].split(':')[2] if b[k].startswith('out') else '?'}] µs — time spent paused must be excluded from reported durations, running time counted",
                               "payload": {"stream": m["origin"][:2], "line_index": m["origin"][2], "request": m["req"], "impl": m["impl"], "spec": m["model"]}, "kind": "timer"})
            continue
        ops = f[2].split(","); a = m["impl"].split(","); b = m["model"].split(",")
        k = next((j for j, (x, y) in enumerate(zip(a, b)) if x != y), min(len(a), len(b)))
        violations.append({"what": f"PausableSleep({f[1]} ms) after the operations {','.join(ops[:k + 1])} (a<ms> advance the clock, p pause, r resume, s<ms> reset, l reset to the last duration): "
                                   f"{'fired' if a[k][:1] == 'f' else 'not fired'}/{'paused' if a[k][1:] == 'P' else 'running'}, expected {'fired' if b[k][:1] == 'f' else 'not fired'}/{'paused' if b[k][1:] == 'P' else 'running'} — time spent paused must not count, and a re-armed sleep must get its configured period" if k < len(a) and k < len(b) else f"PausableSleep: {m['impl']} vs {m['model']} on {m['req']}",
                           "payload": {"stream": m["origin"][:2], "line_index": m["origin"][2], "request": m["req"], "impl": m["impl"], "spec": m["model"]}, "kind": "timer"})
    return {"evaluations": len(items), "distinct_nontrivial": len({q for _, q, i in items if "f" in i or q.startswith("swatch")}), "traces": len(items),
            "rule": "p_timer: the real PausableSleep (guarded hook VerifSleep) on a current-thread runtime with a paused clock, 1-14 operations (advance the clock by 0-1000 ms, pause / resume legally, reset to a new duration, reset to the last duration) from initial durations 0-1000 ms; `fired` (one poll) and `is_paused` after every operation compared with Model/Unit.PSleep; and the real StopwatchStart (guarded hook VerifStopwatch) paused and resumed around real sleeps of 1-7 ms, every operation bracketed by two readings of the harness's clock: each snapshot().active must lie between what Model/Unit.Watch gives for the shortest and the longest times compatible with the readings; non-trivial = the sleep fires at some point, or a stopwatch case",
            "samples": [f"{q}  =>  {i}" for (_, q, i) in items[:3]], "dist": {"timer:" + k: v for k, v in r.dist.items()},
            "violations": violations, "broken": r.broken, "impl_failures": r.impl_failures}


# ------------------------------------------------------------------------------------------------ running a family

FAMILIES = {}


def run_family(name, seed, tier, n_quick, n_thorough, jobs=5, kinds=None):
    gen, mons = FAMILIES[name]
    broken = []
    if not build(broken): return {"e2e_runs": 0, "e2e_tests": 0, "e2e_processes": 0, "dist": {}, "violations": [], "broken": broken, "samples": [], "rule": ""}
    n = n_quick if tier == "quick" else n_thorough
    scs = [gen(seed, k) for k in range(n)]
    res = e2e.run_many(scs, os.path.join(vlib.BUILD, "e2e-run", f"{name}-{seed}"), jobs=jobs)
    violations = []; dist = {}; notes = []
    def evaluate(sc, r):
        out = []
        for m in mons: out += [v for v in m(sc, r) if kinds is None or v["kind"] in kinds or v["kind"] in ("machinery", "protocol")]
        # a request the model driver cannot even parse is never the machine's doing and never the code's: the correspondence
        # itself is broken (reported as such), and the scenario's other findings stand
        for v in out:
            if v["kind"] == "protocol" and v["what"] not in broken: broken.append(v["what"])
        return [v for v in out if v["kind"] != "protocol"]
    for sc, r in res:
        if getattr(r, "error", None): broken.append(f"scenario {sc.name}: {r.error}"); continue
        vs, note = e2e.confirm(sc, r, evaluate, os.path.join(vlib.BUILD, "e2e-run", f"{name}-{seed}"))
        violations += vs
        if note: notes.append(note); dist[f"e2e:{name}:unconfirmed-or-unevaluable"] = dist.get(f"e2e:{name}:unconfirmed-or-unevaluable", 0) + 1
        if note and "not evaluable" in note: dist[f"e2e:{name}:not-evaluable"] = dist.get(f"e2e:{name}:not-evaluable", 0) + 1
        for t in sc.meta["tests"]: dist[f"e2e:{name}:{t['kind']}"] = dist.get(f"e2e:{name}:{t['kind']}", 0) + 1
        for s in sc.signals: dist[f"e2e:{name}:signal:{s[3]}"] = dist.get(f"e2e:{name}:signal:{s[3]}", 0) + 1
    # a family most of whose scenarios cannot be evaluated checks nothing: say so instead of passing quietly
    if len(res) >= 4 and dist.get(f"e2e:{name}:not-evaluable", 0) * 2 > len(res):
        broken.append(f"family {name}: {dist[f'e2e:{name}:not-evaluable']} of {len(res)} scenarios were not evaluable in 4 runs each: {notes[:2]}")
    samples = [{"scenario": sc.name, "tests": [(t["bin"], t["name"], t["kind"]) for t in sc.meta["tests"]], "signals": sc.signals, "exit": r.exit, "wall_ms": int(r.wall_ms)} for sc, r in res[:2]]
    return {"e2e_runs": len(res), "e2e_tests": sum(len(sc.meta["tests"]) for sc, _ in res), "e2e_processes": sum(len(r.procs) for _, r in res), "dist": dist,
            "violations": violations, "broken": broken, "samples": samples, "rule": RULES[name], "notes": notes}


FAMILIES["slow"] = (gen_slow, [mon_slow, mon_model])
FAMILIES["sig"] = (gen_sig, [mon_sig, mon_model, mon_system])
FAMILIES["cancel"] = (gen_cancel, [mon_cancel, mon_system])
FAMILIES["stop"] = (gen_stop, [mon_stop, mon_model])
RULES = {
    "cancel": "end-to-end family `cancel`: fail-fast / max-fail runs where the failure arrives while another test is still running and later fails into a retry delay, or is already waiting out a retry delay; where the triggering failure is a timeout; max-fail = 2 on one thread; fail-fast off; where reporting itself fails (nextest's terminal is a pipe closed under it, so that the report of a failed attempt is the first write to fail) while that test waits out its retry delay; monitors: cancellation begins exactly at the N-th failure, nothing (no test, no retry) starts afterwards, the run ends as soon as the running tests have ended (no retry delay sat out), exit 100",
    "stop": "end-to-end family `stop`: SIGTSTP then SIGCONT 700 ms later (nextest observed stopped/continued by its parent) while a test runs below its deadline, hangs towards its slow-timeout deadline, sits in the termination grace period (after a timeout, after a shutdown signal), or waits out a retry delay; SIGINT delivered while stopped; SIGUSR1 information requests; monitors: tests stopped and continued too, results and exit status unchanged, reported durations and the slow-timeout / grace / retry-delay clocks count running time only and keep working after resumption, no hang, no internal failure, each unit answers an information request at most once with its phase",
    "sig": "end-to-end family `sig`: nextest receives SIGINT/SIGTERM/SIGHUP/SIGQUIT (optionally a second one 250 ms later) while 2-4 units are running, being terminated for a timeout, waiting out a retry delay, draining leaked handles, or while a setup script runs; units exit on the signal, ignore it (with a descendant in the group) or exit late; grace 0/300/1200 ms; monitors: same signal forwarded to every live unit and its group, SIGKILL at grace end / at once on the second signal / at once when already terminating or grace = 0, no retry and no test start after the signal, nextest exits promptly with 100 (105 during setup), nothing of a killed group survives",
    "slow": "end-to-end family `slow`: 2-4 scripted tests in parallel under slow-timeout period 250/400 ms, terminate-after none/1/2/3, grace 0/300 ms (one binary optionally overridden with its own period/terminate-after/grace); tests finish fast, finish shortly before the deadline, or hang and exit on SIGTERM / die by default action / ignore SIGTERM with a descendant in the group / exit late within the grace period; monitors on the receivers' own timestamps: no signal before terminate-after x period, SIGTERM (SIGKILL when grace = 0) at the deadline, group kill at deadline + grace, descendants signalled and dead, result Timeout, slow flag, TestSlow events",
}


if __name__ == "__main__":
    fam = sys.argv[1]; seed = int(sys.argv[2]) if len(sys.argv) > 2 else 1
    p = run_family(fam, seed, sys.argv[3] if len(sys.argv) > 3 else "quick", 6, 40)
    print(p["e2e_runs"], p["broken"], p["dist"])
    for v in p["violations"]: print("  ", v["what"][:400])
