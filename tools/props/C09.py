"""C09 — slow tests are flagged, terminated only at the configured deadline, then killed."""
import vlib
from props import common, mix, tim

THM = "NextestModel.Thm.C09"
GEN = ["tables"]
GEN_GROUPS = ["interval"]
TRUSTED = ["in-process timer stream p_timer: hooks VerifSleep (PausableSleep on a paused tokio clock) and VerifStopwatch (StopwatchStart around real sleeps; trusted: std Instant is monotonic, each operation happens between the harness's two clock readings around it — Driver/Timer.handleSWatch)",
           "model: Model/Unit (the wait loops of run_test_inner / run_setup_script_inner, terminate_child, detect_fd_leaks, handle_delay_between_attempts, with PausableSleep / StopwatchStart as pausable counters over abstract milliseconds)",
           "timer latency, delivery of kill(-pgid, sig) to every member of the process group and the finality of SIGKILL are the runtime's and the kernel's: observed end-to-end on the receivers' own timestamps (tolerances: 40 ms early for exec latency, 700 ms late)"]
ASSUMPTIONS = ["the theorems quantify over event sequences without shutdown requests (C11 covers those)", "setup scripts share the transitions (run_setup_script_inner has the same loop); their slow-timeout is exercised by the sig family only"]


def run(seed, tier, replay=None):
    result = {"evaluations": 0, "distinct_nontrivial": 0, "rule": "", "samples": [], "traces": 0, "dist": {}, "violations": [], "broken": []}
    t = tim.run_timer(seed, tier)
    for k in ("evaluations", "distinct_nontrivial", "traces"): result[k] += t[k]
    result["rule"] = t["rule"]; result["samples"] += t["samples"]; result["dist"].update(t["dist"])
    for k in ("violations", "broken"): result[k] += t[k]
    result["impl_failures"] = t["impl_failures"]
    r = mix.merge(result, tim.run_family("slow", seed, tier, 8, 80))
    # the deadline counts running time: stop/continue before the deadline, in the grace period
    return mix.merge(r, tim.run_family("stop", seed, tier, 3, 24, kinds=("early", "late", "signalled", "model", "hang", "result")))

KNOWN_MATCHERS = {}
