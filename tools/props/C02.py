"""C02 — every selected test runs once to one final result; unselected tests never run."""
import vlib
from props import common, mix, disp, sched

THM = "NextestModel.Thm.C02"
THM_EXTRA = ["NextestModel.Thm.C02Term"]
GEN = []
CHECK_MODULES = ["NextestModel.Lemmas.System", "NextestModel.Lemmas.SystemTerm", "NextestModel.Model.System", "NextestModel.Lemmas.SchedLive"]
TRUSTED = ["model: Model/Dispatcher (registration discipline: new_test / existing_test / finish_test panics) and Model/Sched (future-queue 0.4.0)",
           "that each selected test's future is created from the priority queue exactly once and unselected tests are dropped before scheduling is executor wiring, exercised end-to-end only"]
ASSUMPTIONS = ["attempt numbering / one process per attempt / no overlap of attempts are properties of the per-unit loop (executor), covered by the end-to-end engine"]

KEEP = ("TestStarted(", "TestFinished(", "TestSkipped(", "TestRetryStarted(", "TestAttemptFailedWillRetry(")


def proj(step):
    if step == ["panic"]: return "panic"
    ems = [e.split(",running=")[0] if e.startswith(("TestStarted(", "TestFinished(")) else e for e in (step[2].split(";;") if step[2] else []) if e.startswith(KEEP)]
    return step[1] + "|" + ";;".join(ems) + "|" + step[5]


def run_p(seed, tier, replay=None):
    # dispatcher side
    r, items, model = disp.run_disp(seed, tier, 1000, 30000)
    violations = []
    nt = set()
    for (o, q, i), m in zip(items, model):
        si, _ = disp.split_steps(i); sm, _ = disp.split_steps(m)
        evs = q.split(" ")[3].split(",")
        if sum(1 for e in evs if e.startswith(("S:", "F:"))) >= 3: nt.add(q)
        # monitor on the implementation's own output: per test, Started and Finished alternate, Finished never first
        state = {}
        for k, st in enumerate(si):
            if st == ["panic"]: break
            for e in (st[2].split(";;") if st[2] else []):
                if e.startswith("TestStarted("):
                    t = e[len("TestStarted("):].split(",")[0]
                    if state.get(t) == "running":
                        violations.append({"what": f"test {t} reported started twice without finishing (events {','.join(evs[:k+1])})", "payload": {"request": q, "events": evs[:k + 1], "impl": i}, "kind": "monitor"}); break
                    state[t] = "running"
                if e.startswith("TestFinished("):
                    t = e[len("TestFinished("):].split(",")[0]
                    if state.get(t) != "running":
                        violations.append({"what": f"test {t} reported finished without being started (events {','.join(evs[:k+1])})", "payload": {"request": q, "events": evs[:k + 1], "impl": i}, "kind": "monitor"}); break
                    state[t] = "done"
        for k, (a, b) in enumerate(zip(si, sm)):
            if proj(a) != proj(b):
                violations.append({"what": f"dispatcher step {k} differs from the model on started/finished/skipped events or registration: impl={proj(a)[:200]} model={proj(b)[:200]} (events {','.join(evs[:k+1])})",
                                   "payload": {"stream": o[:2], "line_index": o[2], "request": q, "events": evs[:k + 1], "impl": proj(a), "model": proj(b)}, "kind": "step"})
                break
    # scheduler side
    r2, items2, model2 = sched.run_sched(seed, tier, 1500, 50000)
    for (o, q, i), m in zip(items2, model2):
        T, gmax, its, ops = sched.parse_req(q)
        if len(its) >= 3: nt.add(q)
        mon = sched.monitors(q, i)
        for k in ("never-started-uniform", "never-started-mixed", "panic"):
            if k in mon:
                violations.append({"what": f"in an un-cancelled run some selected test's future is never created: {mon[k][1]} (test-threads {T}, group max-threads {gmax}, items {q.split(' ')[3]}, ops {q.split(' ')[4]})",
                                   "payload": {"stream": o[:2], "line_index": o[2], "test_threads": T, "group_max_threads": gmax, "items(id:threads-required:group)": q.split(" ")[3], "ops": q.split(" ")[4], "impl": i, "request": q},
                                   "kind": k})
        if i.split(" ## ")[-1] != m.split(" ## ")[-1] and not any(k in mon for k in ("panic",)):
            violations.append({"what": f"scheduler ends differently from the model: impl={i.split(' ## ')[-1]} model={m.split(' ## ')[-1]}", "payload": {"request": q, "impl": i, "model": m}, "kind": "sched-end"})
    # the priority queue must contain every listed test exactly once (nothing dropped or duplicated before scheduling)
    rp = common.run_streams([("p_prio", [seed, 300 if tier == "quick" else 6000, vlib.BUILD + "/prio-tmp"])])
    for (b, args, idx, req, impl) in rp.cases:
        if not req.startswith("prio "): continue
        want = sorted(f"{bn.split(':')[0]}/{t}" for bn in req.split(" ")[1].split(";") for t in (bn.split(":")[1].split(",") if bn.split(":")[1] != "." else []))
        got = sorted(impl.split(",")) if impl != "." else []
        if want != got:
            violations.append({"what": f"the dispatch queue is not a permutation of the test list: missing {sorted(set(want) - set(got))[:5]} extra/duplicated {[x for x in got if got.count(x) > 1 or x not in want][:5]}",
                               "payload": {"stream": [b, args], "line_index": idx, "request": req, "impl": impl}, "kind": "queue-perm"})
        if len(want) >= 3: nt.add(req)
    # the attempt loop's delay iterator must never fail, however long a test keeps failing: a panic there kills the unit between
    # attempts and the test is never reported finished (long retry chains of the p_exec stream)
    rb = common.run_streams([("p_exec", [seed, 50])])
    for (b, args, idx, req, impl) in rb.cases:
        if req.startswith("backoff ") and impl == "panic":
            violations.append({"what": f"the attempt loop's delay iterator panics for the retry policy `{req}` (count {req.split(' ')[2]}): the unit dies between attempts and its test is never reported finished",
                               "payload": {"stream": [b, args], "line_index": idx, "request": req, "impl": impl}, "kind": "backoff-panic"})
    r.broken += rb.broken
    r.broken += rp.broken
    for k, v in r2.dist.items(): r.dist["sched:" + k] = v
    samples = [f"{q}  =>  {i[:300]}" for (_, q, i) in items[:2]] + [f"{q}  =>  {i}" for (_, q, i) in items2[:2]]
    return {
        "evaluations": len(items) + len(items2), "distinct_nontrivial": len(nt),
        "rule": "dispatcher: p_disp event sequences (see C10), compared on acknowledgement, TestStarted/Finished/Skipped/Retry events, registration count and panics, plus an alternation monitor per test; scheduler: p_sched (see C08) with the monitor 'every item's future is eventually created once all running futures have completed'; non-trivial = at least 3 start/finish events or at least 3 scheduled items",
        "samples": samples, "traces": len(items) + len(items2), "dist": r.dist,
        "violations": violations, "broken": r.broken + r2.broken, "impl_failures": r.impl_failures + r2.impl_failures,
    }


def _f7(v):
    # future-queue 0.4.0 drains a group's queue only when a member of that group completes: with unequal
    # threads-required inside one test group a parked member may never be created.
    return v.get("kind") == "never-started-mixed"


def run(seed, tier, replay=None):
    from props import tim
    r = mix.merge(run_p(seed, tier, replay), mix.check([mix.mon_once, mix.mon_history, mix.mon_attempt_model], seed, tier))
    # cancelled runs (fail-fast / max-fail while a sibling runs, fails into a retry delay, or waits one out): the history monitor only
    tim.FAMILIES["cancel-history"] = (tim.gen_cancel, [mix.mon_history, tim.mon_skipped]); tim.RULES["cancel-history"] = tim.RULES["cancel"] + "; here only the exactly-once / attempt-numbering monitor (mon_history) is evaluated"
    r = mix.merge(r, tim.run_family("cancel-history", seed, tier, 7, 35))
    tim.FAMILIES["sig-history"] = (tim.gen_sig, [mix.mon_history]); tim.RULES["sig-history"] = tim.RULES["sig"] + "; here only the exactly-once / attempt-numbering monitor (mon_history) is evaluated"
    return mix.merge(r, tim.run_family("sig-history", seed, tier, 4, 30))

KNOWN_MATCHERS = {"F7": _f7}
