#!/bin/bash
# usage: tools/seedmatrix_ids.sh <out> <id>...   — the named seeded changes against the check of their own property (quick tier)
out=$1; shift
: > "$out"
for id in "$@"; do
  prop=${id%%-*}
  grep -q '"retired"' /verif/seeded/$id/meta.json 2>/dev/null && { echo "$id $prop RETIRED (no longer breaks the property; see meta.json)" >> "$out"; continue; }
  res=$(/verif/tools/seedtest.sh /verif/seeded/$id/patch.diff $prop 2>&1)
  if echo "$res" | grep -q "^VIOLATION"; then
    what=$(echo "$res" | grep -A1 "^VIOLATION" | sed -n 2p | cut -c1-260)
    nfi=$(echo "$res" | grep -c "no-failing-input-found")
    echo "$id $prop CAUGHT nfi=$nfi | $what" >> "$out"
  else
    echo "$id $prop MISSED | $(echo "$res" | tail -2 | tr '\n' ' ' | cut -c1-200)" >> "$out"
  fi
done
echo MATRIX-DONE >> "$out"
