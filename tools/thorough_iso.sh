#!/bin/bash
# usage (inside a `vp run --with-repo` snapshot of /verif):  tools/thorough_iso.sh [Cxx ...]
# Runs the thorough tier of the given (default: all) checks against the SNAPSHOT of /repo with own build directories.
R=${VP_RUN_REPO:?needs --with-repo}; V=$PWD
sed -i "s|/repo/|$R/|g" harness/Cargo.toml
sed -i "s|/verif/.build/target|$V/.build/target|" harness/.cargo/config.toml
sed -i "s|/repo|$R|g" setup.sh
export VERIF_REPO=$R
./setup.sh > $V/setup.log 2>&1 || { echo "setup failed"; tail -5 $V/setup.log; exit 2; }
props=${@:-C01 C02 C03 C04 C05 C06 C07 C08 C09 C10 C11 C12 C13 C14 C15 C16 C17 C18 C19 C20}
for p in $props; do
  s=$(date +%s); ./check $p --tier thorough > $V/thorough_$p.log 2>&1; rc=$?; e=$(date +%s)
  echo "$p rc=$rc $((e-s))s $(grep -E '^(OK|VIOLATION|KNOWN)' $V/thorough_$p.log | tr '\n' ' ' | cut -c1-300)" | tee -a $V/thorough.txt
done
echo THOROUGH-DONE >> $V/thorough.txt
