#!/bin/bash
# usage: tools/confirm_seed.sh <base> <Cxx> <k>   — confirm a sub-agent's change myself in its scratch worktree:
# patch applies, builds, demo fails, pinned suite = baseline; reverted, rebuilt, demo passes.  Prints one summary line.
base=$1; p=$2; k=$3
wt=$base/$p; out=$base/$p-out
export CARGO_NET_OFFLINE=true
log=$out/confirm-m$k.log; : > $log
cd $wt || exit 2
git checkout -q -- . ; git status --short | grep -v '^??' >> $log
demo=$(ls $out/m$k-demo.py $out/m$k-demo.sh $out/m$k-demo.rs 2>/dev/null | head -1)
rundemo() { case "$demo" in *.py) timeout 900 python3 "$demo";; *.sh) timeout 900 bash "$demo";; *.rs) dest=$(grep -ohE "(nextest-[a-z-]+|cargo-nextest|integration-tests)/tests/[A-Za-z0-9_]+\.rs" $out/m$k-meta.txt | head -1)
        [ -z "$dest" ] && { echo "rust demo: no destination found in meta"; return 99; }
        crate=${dest%%/*}; stem=$(basename $dest .rs); cp "$demo" "$wt/$dest"
        feat=""; grep -q "verif-hooks" $out/m$k-meta.txt "$demo" 2>/dev/null && feat="--features verif-hooks"
        (cd $wt && timeout 1800 cargo test --offline -p $crate $feat --test $stem); rc=$?; rm -f "$wt/$dest"; return $rc;; *) timeout 900 bash "$demo";; esac; }
git apply --check $out/m$k.patch >> $log 2>&1 || { echo "$p m$k PATCH-DOES-NOT-APPLY"; exit 1; }
git apply $out/m$k.patch
cargo build --offline -p cargo-nextest >> $log 2>&1 || { echo "$p m$k BUILD-FAILS"; git checkout -q -- .; exit 1; }
echo "=== demo with change" >> $log; rundemo >> $log 2>&1; d1=$?
echo "=== suite with change" >> $log
cargo nextest run --workspace --no-fail-fast --tool-config-file pb:/w/lib/nextest.toml --profile pb --test-threads 8 --offline >> $log 2>&1
summ=$(grep -E "^\s*Summary" $log | tail -1)
failed=$(grep -E "^\s+FAIL \[" $log | sort -u | sed -E 's/.*\] +//' | tr '\n' ';')
git checkout -q -- .
cargo build --offline -p cargo-nextest >> $log 2>&1
echo "=== demo without change" >> $log; rundemo >> $log 2>&1; d0=$?
echo "$p m$k demo_with=$d1 demo_without=$d0 | $summ | failed: $failed"
