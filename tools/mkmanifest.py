#!/usr/bin/env python3
"""Regenerates MANIFEST.json from the table below (kept here so the manifest is always valid)."""
import json, os, subprocess
ROOT = os.path.dirname(os.path.dirname(os.path.abspath(__file__)))
ALL = [f"C{i:02d}" for i in range(1, 21)]

CLAIMED = {
 "C13": dict(
    text="Lean 4 theorems over the model of the partitioners and of process_output's passes (count = every n-th candidate, shards partition the candidates, sizes differ by <= 1, hash depends on the name only, xxh64 reference vectors, partitioner consulted last), tied to the code by in-process differential checking of the real TestFilter/PartitionerBuilder/process_output against the model's executable definitions plus an all-shards monitor.",
    note="Trusted: Lean kernel + propext/Classical.choice/Quot.sound; hand-written model (Model/XXH64, Partition, Filter) validated only by the correspondence streams (generator quality bounds it); listing semantics of libtest assumed; filterset truth values and aho-corasick are inputs.",
    technique="Lean 4 proof (induction over candidate lists) + differential correspondence of model vs real code",
    design="§5 C13"),
 "C04": dict(
    text="Lean 4 theorems: filter_match equals the documented stage composition with first-rejecting-stage reasons (filter_match_spec, selected_iff), name_match after resolve equals the documented pattern rule (name_match_spec, for every pattern set the builder API can produce), and the binary-level shortcut is sound (binary_shortcut_sound, given Kleene consistency). Tied to the code by in-process differential checking of TestFilterBuilder/TestFilter/filter_binary_match/process_output against the model, plus a shortcut-soundness monitor on the real code.",
    note="Trusted: Lean kernel + standard axioms; hand-written model (Model/NameFilter, Filter) validated by the correspondence; aho-corasick modelled as infix search; filterset truth values are inputs (C05). merge_test_binary_args is modelled but only corresponded through the CLI stream when the end-to-end engine is available.",
    technique="Lean 4 proof (case analysis / induction) + differential correspondence of model vs real code",
    design="§5 C04"),
 "C05": dict(
    text="Lean 4 theorems: evaluation of the compiled filterset equals membership in the denoted set (eval_is_membership; difference = a and-not b; parentheses only group), independence of operator spelling (spelling_irrelevant), soundness of the three-valued binary-level evaluation (kleene_sound), and precedence/associativity for EVERY input string as a shape invariant of the model parser's output (parse_shape with corollaries). Tied to the code by differential checking of Filterset::parse/matches_test/matches_binary over generated package graphs and of the parser on generated strings.",
    note="Trusted: Lean kernel + standard axioms; hand-written models of the scannerless parser (mirrors winnow combinator behaviour), of compile/eval, of package reachability and of the glob subset; regex truth/validity and glob validity are inputs taken from those crates directly; completeness of the fuelled reachability against the inductive closure is not yet proved (correspondence only).",
    technique="Lean 4 proof (structural / mutual fuel induction) + differential correspondence",
    design="§5 C05"),
 "C20": dict(
    text="Lean 4 theorems about the model of the parser/printer pair: complete ASCII table of per-character print-then-parse round trips (kernel-evaluated), no raw stop character is ever printed for any character, the regex printer escapes exactly the slashes; totality of the model parser is by construction (fuel recursion). The full statements (every reported span inside the input, expression-or-error, whole-expression round trip) are checked on the implementation by monitors on every generated string and by model/implementation agreement on AST, error kinds and spans; they are NOT YET proved as theorems.",
    note="Partial: spans_in_input, result_or_error and print_parse_roundtrip rest on the correspondence (model == implementation on all generated strings) plus direct monitors on the real parser; stack depth is outside the model (deep-nesting stream; known finding F4). Trusted: Lean kernel, model of parsing.rs, regex/globset validity as inputs.",
    technique="Lean 4 proof (finite table by kernel evaluation, case analysis) + differential correspondence + monitors",
    design="§5 C20"),
 "C06": dict(
    text="Lean 4 theorems: the override list produced by the extend_reverse/reverse/chain bookkeeping IS the documented search order for any number of config files and profiles (compiled_order), each setting takes the value of the first applicable override that sets it (settings_spec), settings are resolved independently (fields_independent), the whole resolution equals the documented precedence incl. profile fall-backs (effective_spec) and --retries wins (cli_retries_wins). Tied to the code by differential checking of NextestConfig::from_sources -> profile -> apply_build_platforms -> settings_for on generated TOML configs.",
    note="Trusted: Lean kernel + standard axioms; hand-written Model/Settings; target-spec and filterset truth are inputs from fixed tables; the config crate's layering is modelled, not verified; force_retries is exercised end-to-end only.",
    technique="Lean 4 proof (induction over file and override lists) + differential correspondence",
    design="§5 C06"),
 "C01": dict(
    text="Lean 4 theorems: exit status = 0 iff (no failed/outstanding setup script, no failed test, every expected test finished, non-empty run or tolerant --no-tests policy) (exit_zero_iff), priority of 105/100/4 (exit_codes), the deciding counters are exactly the history of Finished/SetupScriptFinished events under EVERY event order (run_counts, exit_zero_iff_history), flaky/leaky passes count as passes, and the exit table equals the one regenerated from exec_run/process_exit_code/NextestExitCode (exit_table_matches_source). Tied to the code by the dispatcher stepping hook (real DispatcherContext + RunStats::summarize_final) against the model and an independent history-based oracle.",
    note="Trusted: Lean kernel + standard axioms; Model/Dispatcher; tools/extract.py for the regenerated table. The real process exit status of real runs (signals, spawn failures, reporter errors) is not exercised by this check yet (end-to-end engine pending): PARTIAL on that side.",
    technique="Lean 4 proof (case analysis, induction over event lists, decide on regenerated tables) + differential correspondence through a stepping hook",
    design="§5 C01"),
 "C02": dict(
    text="Lean 4 theorems: the dispatcher never reports a test finished (or retried) unless it is registered, never acknowledges a start for a registered test, unregisters on finish (finished_requires_started, no_double_start, finished_unregisters); and a machine-checked counterexample showing that an un-cancelled run can end with a selected test never created (uncancelled_complete_counterexample, defect F7 in future-queue). Tied to the code by the dispatcher stepping hook and by driving the real future_queue_grouped by hand.",
    note="PARTIAL: 'each test's future is created once from the priority queue', attempt numbering and one-process-per-attempt are executor properties not yet covered by a model theorem or an end-to-end monitor; the full statement is false of the current code (known finding F7); the partial theorem under per-group uniform weights is not yet proved.",
    technique="Lean 4 proof + counterexample by kernel evaluation + differential correspondence",
    design="§5 C02"),
 "C08": dict(
    text="Lean 4 theorems on the scheduler model for EVERY item list, weight/group assignment and completion order: the accounted global weight equals the sum over alive futures of min(threads-required, test-threads) and never exceeds test-threads (global_weight_step, global_weight_inv); with test-threads = 1 at most one test runs (no_capture_serial). Tied to the code by driving the real future_queue_grouped with futures that complete on command and comparing start order, slots and current_global_weight, plus monitors recomputing global and per-group sums.",
    note="PARTIAL: the per-group weight invariant and the priority-queue order (descending priority, stable) are checked by monitors/correspondence only so far, not yet as theorems; threads-required resolution against -j (imp.rs wiring) and real process lifetimes are end-to-end only.",
    technique="Lean 4 proof (invariant by induction over operations) + differential correspondence against the real future-queue crate",
    design="§5 C08"),
 "C10": dict(
    text="Lean 4 theorems about the dispatcher model for EVERY state and event, hence every order of start requests, results, retries, script results, signals and reporter errors: cancellation severity never decreases (cancel_monotone), nothing starts after cancellation begins (no_start_after_cancel, run_no_start_after_cancel), a cancellation notice is announced only when it strictly escalates and hence at most once (announce_only_on_escalation, run_announcements_escalate), test-failure cancellation begins exactly when the failure limit is reached and never under no-fail-fast (maxfail_exact, below_limit_step, no_fail_fast_never_cancels), failing setup scripts always cancel, non-signal causes only broadcast OtherCancel; severity order = CancelReason's declaration order regenerated from the source. Tied to the code by the stepping hook on the real DispatcherContext.",
    note="Trusted: Lean kernel + standard axioms; Model/Dispatcher; the hook repeats run()'s response→broadcast mapping. PARTIAL: 'running tests are left to finish' and 'the run ends without sitting out retry delays' are executor-side (known defect F5 candidate) and need the end-to-end engine.",
    technique="Lean 4 proof (case analysis over all events, induction over runs) + differential correspondence through a stepping hook",
    design="§5 C10"),
 "C14": dict(
    text="Lean 4 theorems about the slot allocator against the set of held slots: a reserved slot is not held by any alive future, is the smallest such number, and the invariant (held distinct, held/free partition [0,next)) is preserved by reserve and release (reserve_is_least_free, release_keeps_invariant, held_slots_distinct). Tied to the code by recording global_slot()/group_slot() of every future created by the real future_queue_grouped and re-deriving least-free / uniqueness / bounds from the history.",
    note="PARTIAL: the lifting from the allocator to the whole scheduler state (held = slots of running futures) and the bound slot < limit are checked by monitors only; stability across retries and the NEXTEST_TEST_* environment values are end-to-end only.",
    technique="Lean 4 proof (data-structure invariant) + differential correspondence + monitors",
    design="§5 C14"),
 "C17": dict(
    text="Lean 4 theorems: passed + failed + exec-failed + timed-out = finished with flaky, leaky and slow as sub-counts, and the script analogue, on every state reachable under every event order (counter_partition_step, counter_partition); every TestFinished event carries the run's statistics of that moment and the test's complete attempt list (finished_event_carries_stats). Tied to the code by the dispatcher stepping hook.",
    note="PARTIAL: the JUnit aggregator (one testcase per finished test, reruns, stored output, XML validity; candidate defect F8) and the human summary line are not yet modelled or checked.",
    technique="Lean 4 proof (invariant) + differential correspondence through a stepping hook",
    design="§5 C17"),
 "C03": dict(
    text="Lean 4 theorems: the classification table read off the property (pass iff exit 0 without leak or pipe error; leak iff exit 0 with leak; any other own ending is a failure carrying the signal; timeout only on the terminated-by-nextest path; exec-fail iff not spawned — or a pipe read error, stated outright), decoding of every raw wait status (kernel-evaluated complete table), and flaky iff the last attempt passed after earlier attempts (flaky_iff). Tied to the code by an EXHAUSTIVE differential run of the real create_execution_result over all exit codes and signals.",
    note="PARTIAL: the executor paths that set Timeout / ExecFail / leaked (run_test_inner, detect_fd_leaks) are not modelled yet; they need the unit state machine and the end-to-end engine.",
    technique="Lean 4 proof (case analysis, complete finite tables by kernel evaluation) + exhaustive differential correspondence",
    design="§5 C03"),
 "C07": dict(
    text="Lean 4 theorems on the backoff iterator for every policy: exactly `count` delays (count_exact), fixed = the same delay every time (fixed_delay), exponential = base·2^k (exp_delay_closed_form), capped = min(base·2^k, max-delay) (exp_delay_capped); with C06.cli_retries_wins (--retries replaces every policy) and C10.no_start_after_cancel (a retry request is refused once the run is being cancelled). Tied to the code by differential checking of the real BackoffIter (jitter bounds checked on the implementation's samples).",
    note="PARTIAL: the attempt loop (retry until pass or N+1 attempts, stop on success, delay actually waited, pauses excluded) is executor behaviour not yet modelled; end-to-end engine pending.",
    technique="Lean 4 proof (induction over the iterator) + differential correspondence",
    design="§5 C07"),
 "C15": dict(
    text="Lean 4 theorems: the argv shape (argv_exact) and environment precedence — every variable nextest sets wins over the inherited environment and Cargo's [env] whatever they contain, and the run id is one value per run (nextest_vars_win, run_id_constant) — over the model of the order of Command::env writes. Tied to the code end-to-end: the real cargo-nextest (rebuilt with hooks) runs scripted test binaries that record their own argv, cwd, pgid, stdin and environment, with hostile test names and a hostile inherited environment, double-spawn on.",
    note="PARTIAL: shell_words split∘join = id (double-spawn transparency) is not yet proved; process-group leadership, /dev/null stdin and cwd are OS effects checked only end-to-end. Trusted: Lean kernel; Model/Command; the scripted binary's self-report; tools/e2e.py.",
    technique="Lean 4 proof (list-of-writes semantics) + end-to-end correspondence with scripted processes",
    design="§5 C15"),
 "C16": dict(
    text="Lean 4 theorems on the capture accumulator over an abstract pipe, for EVERY interleaving of writes, closes and reads of any sizes: captured = a prefix of what was written, in order (prefix_invariant, prefix_invariant_run, leak_exit_keeps_prefix), and = everything written once EOF is reached (complete_at_eof). Tied to the code end-to-end: scripted tests write deterministic byte patterns (0 B – 200 kB, chunk sizes 1 B – 1 MiB, binary / invalid UTF-8, both streams, several attempts, concurrent writers); the event-log tap reports length + xxh64 per stream per attempt, recomputed independently; JUnit output attribution per attempt is checked.",
    note="PARTIAL: pipe/epoll/tokio delivery is assumed (POSIX), the normalisations (lossy UTF-8, XML, ANSI) and combined capture are not checked. Trusted: Lean kernel; Model/Capture; event tap; scripted binary.",
    technique="Lean 4 proof (invariant over all schedules) + end-to-end correspondence",
    design="§5 C16"),
 "C18": dict(
    text="Lean 4 theorems on the setup-script model for EVERY set of definitions, rules, rule truth table and selection: a script runs iff it is defined and some rule listing it matches (platform and filter) a selected test (enabled_iff; nothing_selected_nothing_runs); run order is definition order (order_is_definition_order); an env file with a line lacking '=' or a key starting with NEXTEST yields no variable at all, and accepted files never contain a reserved key (nextest_keys_rejected, accepted_keys_not_reserved); a variable reaches a test iff a rule listing the writing script matches that test (env_scope, env_not_for_unmatched). Tied to the code end-to-end: the real cargo-nextest runs generated configurations (scripts defined in random order, 1-3 rules with filters/platforms, CLI filter, ignored tests, failing/malformed/reserved/slow scripts); the model's answer (enabled list, env-file verdicts, per-test variables) is compared with what the scripted processes record; monitors check serial execution, completion before the first test, no test after a failing script and exit status 105.",
    note="PARTIAL: executor sequencing (serial, before tests) and the exit status are observed end-to-end, not proved; rule truth (platform/filter) is an input decided by C05/C06. Trusted: Lean kernel; Model/Scripts; scenario generator's independent rule truth; scripted binary.",
    technique="Lean 4 proof (decision logic + induction over env-file lines) + end-to-end correspondence",
    design="§5 C18"),
 "C19": dict(
    text="Lean 4 theorems on the archive model, for EVERY file tree, depth, entry path and crash point: an included path contributes exactly the regular files and symlinks at most `depth` levels below it, other kinds never (collect_depth, by mutual structural induction on the tree); each destination path is archived once, what was archived first stays, every offered path is present (dedup_no_duplicates, dedup_first_wins, dedup_complete); an entry accepted by the extractor's validation has only normal components, the first being `target`, so it lands under <dest>/target whatever the path, and any `..`, root or leading `.` component is rejected (accepted_components, validated_paths_stay_inside, reject_bad_components); remapping rewrites exactly the target-dir prefix (path_mapper_prefix, path_mapper_other); in the temp-file-then-rename protocol the destination is old-or-complete after every prefix of a successful creation and untouched by a failed one (atomic_all_or_nothing, failed_creation_changes_nothing). Tied to the code in-process (real archive_to_file / extract_archive on generated trees, include rules and raw-header hostile archives, model answers compared) and end-to-end (CLI archive/list/run round trip with SHA-256 comparison; SIGKILL at random moments).",
    note="PARTIAL: contents fidelity, tar::unpack_in's link protection and rename atomicity are third-party/kernel behaviour: observed (digests, canaries, kill points), not proved. Trusted: Lean kernel; Model/Archive; harness p_archive; scripted workspace.",
    technique="Lean 4 proof (structural induction on trees, decision logic on path components, crash-point state machine) + differential correspondence + end-to-end",
    design="§5 C19"),
 "C09": dict(
    text="Lean 4 theorems on the unit model (every wait loop of a running attempt, pausable timers over abstract time) for EVERY event sequence without shutdown requests — time passing in any pieces, SIGTSTP/SIGCONT, information requests, non-signal cancellation, the process exiting at any moment: if SIGTERM/SIGKILL is ever sent the test has run, not counting stopped time, at least terminate-after x period (no_terminate_before_deadline, by an invariant tying the stopwatch to the interval sleep; fast_tests_unsignalled; no_terminate_without_terminate_after); slow mark iff running time >= period (slow_iff_period_elapsed); SIGTERM, or SIGKILL when grace = 0 (terminate_signal); SIGKILL after exactly the grace period of un-paused time (kill_after_grace); a timed-out attempt is reported as such (timeout_reported). Tied to the code end-to-end: family `slow` (periods, terminate-after, grace, per-binary override, tests that finish early / shortly before the deadline / hang and exit on, ignore, or exit late after SIGTERM, with a descendant in the group); the model's predicted signal times, Slow events, time-out, slow mark and running time are compared with the receivers' own records, and independent monitors recompute the property.",
    note="PARTIAL: real timer latency and kernel signal delivery are observed with tolerances, not proved; setup-script slow-timeouts share the transitions and are only sampled. Trusted: Lean kernel; Model/Unit; scripted binary; supervisor.",
    technique="Lean 4 proof (invariant over all event sequences of the unit state machine) + end-to-end correspondence",
    design="§5 C09"),
 "C11": dict(
    text="Lean 4 theorems: the signal tables regenerated from unix.rs are the model's and every kill addresses the process group (signal_tables_match_source); each shutdown event is forwarded as its own, distinct, non-KILL signal when grace != 0 (shutdown_forwarded_same_signal); a running unit is signalled and enters the configured grace period (running_unit_is_signalled, grace_is_configured); zero grace or a second signal means SIGKILL (zero_grace_or_second_signal_kills); a unit already terminating is killed at once (terminating_unit_is_killed); a unit in its retry delay leaves it and starts nothing (delayed_unit_leaves); a draining unit ignores the signal and ends within the leak timeout (draining_unit_ends); SIGKILL when the grace timer expires (kill_after_grace); the broadcast reaches exactly the registered units with an open channel (broadcast_reaches_all_registered); first signal broadcast as itself, second as the kill request (shutdown_requests). Tied to the code end-to-end: family `sig` injects INT/TERM/HUP/QUIT and pairs at every phase with the model as oracle for running units and monitors on receivers' logs, liveness, exit status and wall-clock exit.",
    note="PARTIAL: that nextest exits as soon as all units have exited is observed, not proved (run-loop termination not modelled); kernel delivery and SIGKILL finality observed. Trusted: Lean kernel; Model/Unit, Model/Dispatcher; extractor; scripted binary; supervisor.",
    technique="Lean 4 proof (decision logic per phase + regenerated signal tables) + end-to-end correspondence",
    design="§5 C11"),
 "C12": dict(
    text="Lean 4 theorems: for EVERY event sequence in which Stop requests are debounced as the dispatcher debounces them (stop_continue_alternate, proved on the dispatcher model) — interleaved arbitrarily with time, shutdown requests, cancellation, information requests and the process's exit, from a fresh attempt and from a retry delay — no timer is paused while paused or resumed while running (timer_discipline, by the invariant `paused only while stopped`); on Continue every timer the phase owns runs again and SIGCONT is forwarded (all_resumed); while stopped no clock moves and nothing fires, while running they advance by exactly the elapsed time (stopped_time_excluded, running_time_counted; the deadline in running time under arbitrary stop/continue is C09.no_terminate_before_deadline); an information request is answered once with the phase's state and changes nothing (info_once_and_matches); stop/continue change no result field (stop_continue_change_no_result). The proof attempt exposed a third illegal transition in the code (F10), reproduced end-to-end and repaired. Tied to the code end-to-end: family `stop` (TSTP/CONT at every phase, SIGINT while stopped, second shutdown with CONT, USR1), nextest observed stopped/continued by its parent, model as oracle.",
    note="PARTIAL: trace-erasure form of `results unchanged` observed, not proved; ack timeout, SIGSTOP and select! order are runtime (all orders quantified in the model, sampled end-to-end). Trusted: Lean kernel; Model/Unit, Model/Dispatcher; scripted binary; supervisor.",
    technique="Lean 4 proof (invariant over all interleavings of the unit state machine) + end-to-end correspondence",
    design="§5 C12"),
}
NOT_YET = "not yet claimed: model/theorems for this property are still being built (see DESIGN.md §5); no other technique is substituted"

# ---- updates (as built; later sessions extend the theorem sets — keep these in step with lean/NextestModel/Thm/*.lean)
CLAIMED["C01"].update(
    note="Trusted: Lean kernel + standard axioms; Model/Dispatcher; tools/extract.py for the regenerated table. End-to-end: the real process exit status is compared with the scripted processes' own outcomes in families mix (results, retries), slow (timed-out tests incl. ones that exit 0 when told to terminate), cancel (fail-fast / max-fail) and sig (shutdown signals). Reporter I/O failures are a hypothesis of the statement and are not injected.")
CLAIMED["C02"].update(
    note="PARTIAL: the full liveness statement is false of the current code (known finding F7, third-party future-queue: uncancelled_complete_counterexample); what holds is proved as uncancelled_complete_partial — for every test list, thread count, group configuration and every completion order, if all members of each test group have the same threads-required then the futures created so far plus the tests still waiting are exactly the selected tests (each once), the stream ends only with every future created and no test parked, and the scheduler never idles while a test waits (invariant: a non-empty group queue has a running member; Lemmas/SchedLive). The scheduler stream's monitor reports a never-created future under uniform weights as a violation and under mixed weights as F7. Attempt numbering / one process per attempt / no overlap / exactly-once start and finish are checked on real histories (families mix, cancel, sig: monitors mon_once and mon_history on the event log merged with the processes' own records), not proved for the executor's attempt loop.")
CLAIMED["C03"].update(
    text=CLAIMED["C03"]["text"] + " ExecutionStatuses::describe is compared exhaustively over every sequence of 1-4 attempt results (guarded hook).",
    note="PARTIAL: the executor paths that set Timeout / ExecFail / leaked are modelled in Model/Unit (timeout_iff_terminated_by_nextest) and observed end-to-end (families mix, slow incl. tests exiting 0 on SIGTERM, cancel incl. a cancellation arriving inside the leak window); the race at the leak-timeout threshold is excluded by the statement.")
CLAIMED["C07"].update(
    note="PARTIAL: the attempt loop (retry until pass or N+1 attempts, stop on success, delay actually waited, pauses excluded, no retry once cancelled) is executor behaviour: modelled per unit in Model/Unit (delay phase) and checked end-to-end on the processes' own timestamps (families mix, cancel, stop), not proved as a loop invariant.")
CLAIMED["C15"].update(
    text="Lean 4 theorems: the argv shape for any test name (argv_exact); shell_words::split(shell_words::join(ws)) = ws for EVERY list of words over every Unicode scalar value, by induction over the word list with one lemma per quoting style of `quote` against `split`'s eight-state machine (shell_roundtrip), hence the double-spawn launcher is transparent and never hits its parse error (double_spawn_transparent, double_spawn_never_parse_error); every variable nextest sets wins over the inherited environment and Cargo's [env] whatever they contain, and the run id is one value per run (nextest_vars_win, run_id_constant). Tied to the code in-process (guarded hook verif_make_command: the real TestInstance::make_command / create_command / TestCommand::new / EnvironmentMap::apply_env on hostile names, extra args, package metadata, inherited environment and [env] tables with and without force, double-spawn on and off; the real shell_words on adversarial word lists and raw strings) and end-to-end (scripted processes record their own argv, cwd, pgid, stdin, environment).",
    note="Trusted: Lean kernel; Model/Command, Model/Shell; hook verif_make_command; the harness replays DoubleSpawnOpts::exec's three lines (split, then exec) in-process, the real launcher is exercised end-to-end. Process-group leadership, /dev/null stdin, cwd and the variables written in run_test_inner (__NEXTEST_ATTEMPT, NEXTEST_RUN_ID, slots, setup-script variables) are observed end-to-end only.",
    technique="Lean 4 proof (induction over word lists and over a state machine; list-of-writes semantics) + in-process differential correspondence through a guarded hook + end-to-end correspondence with scripted processes")
CLAIMED["C16"].update(
    note="PARTIAL: pipe/epoll/tokio delivery is assumed (POSIX). The documented normalisations (lossy UTF-8, ANSI and XML-invalid character stripping) are checked on one fixed hostile output against a pinned expected text (astral planes, private use, U+FFFD kept; U+FFFE/U+FFFF, C0 controls, the escape sequence removed); combined capture is not exercised. Output written immediately before the process is gone (from a SIGTERM handler into an enlarged pipe, up to 900 kB) must be captured in full. Trusted: Lean kernel; Model/Capture; event tap; scripted binary.")
CLAIMED["C17"].update(
    text="Lean 4 theorems. Counters: passed + failed + exec-failed + timed-out = finished with flaky, leaky and slow as sub-counts, and the script analogue, on every state reachable under every event order (counter_partition_step, counter_partition); every TestFinished event carries the run's statistics of that moment and the test's complete attempt list (finished_event_carries_stats). JUnit aggregation (Model/Junit = MetadataJunit::write_event), for EVERY event list: the report is exactly the grouping of the per-event test cases by suite key in event order (Lemmas.Junit.writeEvents_casesFor) with one suite per binary / script (junit_suites_distinct), hence exactly one test case per finished test in the suite named after its binary (junit_one_case_per_finished, junit_total_cases); a case has a failure/error element iff the final attempt did not succeed (junit_status_iff); a finally-passing test has one flaky* child per prior failed attempt and carries the last attempt, a failing test one rerun* child per attempt after the first and carries the first — every attempt has exactly one place (junit_reruns); output is stored exactly as store-success-output / store-failure-output say, per case and per rerun (junit_store_rule); the aggregator's unreachable! is not reachable on executor histories (junit_no_panic); and the three views agree: report totals, failure/error cases and flaky cases equal the statistics folded from the same events, which the summary line prints (three_views_agree). Tied to the code by the dispatcher stepping hook (counters) and by driving the real Reporter with synthetic events and parsing the JUnit file and Summary line back (p_junit).",
    note="Trusted: Lean kernel; Model/Dispatcher, Model/Junit; guarded hooks (ExecutionStatuses::verif_new, RunStats::verif_on_*); quick-junit's XML writing and character filtering are third-party: exercised (quick-xml in-process, expat end-to-end, hostile output incl. U+FFFE/U+FFFF), not modelled. Hypothesis of the JUnit theorems: every attempt before the last failed (what the attempt loop produces).",
    technique="Lean 4 proof (refinement: report = group-by of per-event cases; invariants by induction over event lists) + differential correspondence through a stepping hook and through the real Reporter + end-to-end")
CLAIMED["C19"].update(
    text=CLAIMED["C19"]["text"].replace("(dedup_no_duplicates, dedup_first_wins, dedup_complete);", "(dedup_no_duplicates, dedup_first_wins, dedup_complete, member_origin); the archive's own metadata entries always come from memory, never from a stale file found in the target directory or an include (metadata_is_fresh);"))

CLAIMED["C02"].update(
    text=CLAIMED["C02"]["text"] + " One unit (Model/Attempts = the attempt loop of run_test_instance): at most one Finished, it is the unit's last action and carries exactly the outcomes of the attempts spawned, numbered 1..n in order (one_final_result); a refused start spawns and reports nothing (refused_start_runs_nothing). The attempt-loop model is also run as an acceptor of every test's observed history in the end-to-end runs. Scheduler liveness under per-group uniform threads-required (uncancelled_complete_partial): conservation of the selected tests across created futures / stream / group queues, the stream ends only when every future was created, and the scheduler never idles while a test waits — for every test list, configuration and completion order.")
CLAIMED["C07"].update(
    text=CLAIMED["C07"]["text"] + " Attempt loop (Model/Attempts), for every policy, every behaviour of the processes and every pattern of acknowledgements: the loop never trips its expect on the backoff iterator (attempt_loop_never_panics), at most N+1 spawns numbered consecutively (attempts_bound), every attempt followed by another had failed (stop_on_success), a retry is spawned only after the dispatcher acknowledged it (no_retry_unless_acknowledged), un-refused units end in a pass or use all N+1 attempts (retried_until_pass_or_bound), the announced delays are the backoff iterator's (announced_delays_are_backoff).",
    note="PARTIAL: that the delay is actually waited (pauses excluded) is Model/Unit's delay phase plus end-to-end timestamps; the loop model is tied to the code as an acceptor of real histories (spawned attempt numbers, final statuses, announced delays of every test in family mix) and by the cancel family, not in-process.")
CLAIMED["C08"].update(
    text=CLAIMED["C08"]["text"].replace("with test-threads = 1 at most one test runs (no_capture_serial).", "with test-threads = 1 at most one test runs (no_capture_serial); for every test group the accounted weight equals the sum over its alive members of min(threads-required, max-threads) and never exceeds max-threads (group_weight_step, group_weight_inv); the dispatch queue is a stable sort by descending priority of the (binary id, name)-ordered list (priority_queue_order)."),
    note="PARTIAL: threads-required resolution against -j (imp.rs wiring) and real process lifetimes are end-to-end only (fixed scenarios: weight above a group's limit, a test heavier than the run, num-test-threads under -j).")
CLAIMED["C14"].update(
    text=CLAIMED["C14"]["text"] + " Lifted to the scheduler (SchedInv): a started test gets the least slot no alive test holds, distinct from theirs and below test-threads (start_inv, by pigeonhole), every operation preserves it (sched_inv_step), hence in every reachable state the global slots of alive tests are distinct and below the test-thread count (global_slots_distinct_and_below).",
    note="PARTIAL: the group-slot lifting is per allocator only (same lemmas, not re-stated per group); stability across retries and the NEXTEST_TEST_* environment values are end-to-end only.")
CLAIMED["C20"].update(
    text=CLAIMED["C20"]["text"] + " Proved over the whole model parser, for EVERY input string and validity oracle: every recorded error span ends inside the input (spans_in_input) and a parse that yields no expression has recorded at least one error (result_or_error) — one invariant lemma per parser function, mutual induction on the fuel at the expression level; totality is by construction.",
    note="Partial: the whole-expression print_parse_roundtrip rests on the correspondence (string, regex and matcher round trips are proved); regex/glob engine error spans are enveloped, not modelled; stack depth is outside the model (deep-nesting stream; known finding F4).")

def main():
    hooks_commits = subprocess.run(["git", "-C", "/repo", "log", "--format=%h %s"], stdout=subprocess.PIPE).stdout.decode().split("\n")
    hooks = [l.split(" ")[0] for l in hooks_commits if "verif-hooks" in l]
    checks = []
    for pid in ALL:
        if pid not in CLAIMED: continue
        c = CLAIMED[pid]
        checks.append({
            "property_id": pid,
            "quick_cmd": f"./check {pid} --tier quick",
            "thorough_cmd": f"./check {pid} --tier thorough",
            "evidence_file": f"/verif/evidence/{pid}.json",
            "replay_cmd_template": f"./check {pid} --replay {{path}}",
            "engine": "lean-proof+correspondence",
            "level_claimed": {"category": "proof", "text": c["text"], "design_ref": c["design"]},
            "level_note": c["note"],
            "technique": c["technique"],
        })
    man = {
        "version": 1,
        "setup_cmd": "./setup.sh",
        "hooks": {
            "guard": "cargo feature `verif-hooks` of nextest-runner (off by default)",
            "enable": "the harness crate /verif/harness depends on nextest-runner with features=[\"verif-hooks\"] by path; checks run `cargo build --offline` there, which rebuilds /repo's working tree",
            "baseline_off_cmd": "cd /repo && cargo nextest run --workspace --no-fail-fast --tool-config-file pb:/w/lib/nextest.toml --profile pb --test-threads 8 --offline",
            "source_commits": hooks,
            "add_only": True,
        },
        "engines": [
            {"name": "lean-proof+correspondence", "path": "/verif/check", "serves_properties": sorted(CLAIMED),
             "kind_free_text": "Lean 4 theorems about a hand-written executable model (lean/), regenerated tables (tools/extract.py), in-process differential checking of the model against the real crates (harness/), end-to-end scripted runs where the runtime matters"},
        ],
        "checks": checks,
        "not_applicable": [{"property_id": p, "reason": NOT_YET} for p in ALL if p not in CLAIMED],
        "notes": "See DESIGN.md. Every check: regenerate tables -> lake build theorems -> audit axioms -> rebuild harness against /repo working tree -> correspondence -> evidence -> verdict.",
    }
    json.dump(man, open(os.path.join(ROOT, "MANIFEST.json"), "w"), indent=1)

if __name__ == "__main__":
    main()
