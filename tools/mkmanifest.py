#!/usr/bin/env python3
"""Regenerates MANIFEST.json from the table below (kept here so the manifest is always valid)."""
import json, os, subprocess
ROOT = os.path.dirname(os.path.dirname(os.path.abspath(__file__)))
ALL = [f"C{i:02d}" for i in range(1, 21)]

CLAIMED = {
 "C13": dict(
    text="Lean 4 theorems over the model of the partitioners and of process_output's passes (count = every n-th candidate, shards partition the candidates, sizes differ by <= 1, hash depends on the name only, xxh64 reference vectors, partitioner consulted last), tied to the code by in-process differential checking of the real TestFilter/PartitionerBuilder/process_output against the model's executable definitions plus an all-shards monitor.",
    note="Trusted: Lean kernel + propext/Classical.choice/Quot.sound; hand-written model (Model/XXH64, Partition, Filter) validated only by the correspondence streams (generator quality bounds it); listing semantics of libtest assumed; filterset truth values and aho-corasick are inputs.",
    technique="Lean 4 proof (induction over candidate lists) + differential correspondence of model vs real code",
    design="§5 C13"),
 "C04": dict(
    text="Lean 4 theorems: filter_match equals the documented stage composition with first-rejecting-stage reasons (filter_match_spec, selected_iff), name_match after resolve equals the documented pattern rule (name_match_spec, for every pattern set the builder API can produce), and the binary-level shortcut is sound (binary_shortcut_sound, given Kleene consistency). Tied to the code by in-process differential checking of TestFilterBuilder/TestFilter/filter_binary_match/process_output against the model, plus a shortcut-soundness monitor on the real code.",
    note="Trusted: Lean kernel + standard axioms; hand-written model (Model/NameFilter, Filter) validated by the correspondence; aho-corasick modelled as infix search; filterset truth values are inputs (C05). merge_test_binary_args is modelled but only corresponded through the CLI stream when the end-to-end engine is available.",
    technique="Lean 4 proof (case analysis / induction) + differential correspondence of model vs real code",
    design="§5 C04"),
 "C05": dict(
    text="Lean 4 theorems: evaluation of the compiled filterset equals membership in the denoted set (eval_is_membership; difference = a and-not b; parentheses only group), independence of operator spelling (spelling_irrelevant), soundness of the three-valued binary-level evaluation (kleene_sound), and precedence/associativity for EVERY input string as a shape invariant of the model parser's output (parse_shape with corollaries). Tied to the code by differential checking of Filterset::parse/matches_test/matches_binary over generated package graphs and of the parser on generated strings.",
    note="Trusted: Lean kernel + standard axioms; hand-written models of the scannerless parser (mirrors winnow combinator behaviour), of compile/eval, of package reachability and of the glob subset; regex truth/validity and glob validity are inputs taken from those crates directly; completeness of the fuelled reachability against the inductive closure is not yet proved (correspondence only).",
    technique="Lean 4 proof (structural / mutual fuel induction) + differential correspondence",
    design="§5 C05"),
 "C20": dict(
    text="Lean 4 theorems about the model of the parser/printer pair: complete ASCII table of per-character print-then-parse round trips (kernel-evaluated), no raw stop character is ever printed for any character, the regex printer escapes exactly the slashes; totality of the model parser is by construction (fuel recursion). The full statements (every reported span inside the input, expression-or-error, whole-expression round trip) are checked on the implementation by monitors on every generated string and by model/implementation agreement on AST, error kinds and spans; they are NOT YET proved as theorems.",
    note="Partial: spans_in_input, result_or_error and print_parse_roundtrip rest on the correspondence (model == implementation on all generated strings) plus direct monitors on the real parser; stack depth is outside the model (deep-nesting stream; known finding F4). Trusted: Lean kernel, model of parsing.rs, regex/globset validity as inputs.",
    technique="Lean 4 proof (finite table by kernel evaluation, case analysis) + differential correspondence + monitors",
    design="§5 C20"),
 "C06": dict(
    text="Lean 4 theorems: the override list produced by the extend_reverse/reverse/chain bookkeeping IS the documented search order for any number of config files and profiles (compiled_order), each setting takes the value of the first applicable override that sets it (settings_spec), settings are resolved independently (fields_independent), the whole resolution equals the documented precedence incl. profile fall-backs (effective_spec) and --retries wins (cli_retries_wins). Tied to the code by differential checking of NextestConfig::from_sources -> profile -> apply_build_platforms -> settings_for on generated TOML configs.",
    note="Trusted: Lean kernel + standard axioms; hand-written Model/Settings; target-spec and filterset truth are inputs from fixed tables; the config crate's layering is modelled, not verified; force_retries is exercised end-to-end only.",
    technique="Lean 4 proof (induction over file and override lists) + differential correspondence",
    design="§5 C06"),
}
NOT_YET = "not yet claimed: model/theorems for this property are still being built (see DESIGN.md §5); no other technique is substituted"

def main():
    hooks_commits = subprocess.run(["git", "-C", "/repo", "log", "--format=%h %s"], stdout=subprocess.PIPE).stdout.decode().split("\n")
    hooks = [l.split(" ")[0] for l in hooks_commits if "verif-hooks" in l]
    checks = []
    for pid in ALL:
        if pid not in CLAIMED: continue
        c = CLAIMED[pid]
        checks.append({
            "property_id": pid,
            "quick_cmd": f"./check {pid} --tier quick",
            "thorough_cmd": f"./check {pid} --tier thorough",
            "evidence_file": f"/verif/evidence/{pid}.json",
            "replay_cmd_template": f"./check {pid} --replay {{path}}",
            "engine": "lean-proof+correspondence",
            "level_claimed": {"category": "proof", "text": c["text"], "design_ref": c["design"]},
            "level_note": c["note"],
            "technique": c["technique"],
        })
    man = {
        "version": 1,
        "setup_cmd": "./setup.sh",
        "hooks": {
            "guard": "cargo feature `verif-hooks` of nextest-runner (off by default)",
            "enable": "the harness crate /verif/harness depends on nextest-runner with features=[\"verif-hooks\"] by path; checks run `cargo build --offline` there, which rebuilds /repo's working tree",
            "baseline_off_cmd": "cd /repo && cargo nextest run --workspace --no-fail-fast --tool-config-file pb:/w/lib/nextest.toml --profile pb --test-threads 8 --offline",
            "source_commits": hooks,
            "add_only": True,
        },
        "engines": [
            {"name": "lean-proof+correspondence", "path": "/verif/check", "serves_properties": sorted(CLAIMED),
             "kind_free_text": "Lean 4 theorems about a hand-written executable model (lean/), regenerated tables (tools/extract.py), in-process differential checking of the model against the real crates (harness/), end-to-end scripted runs where the runtime matters"},
        ],
        "checks": checks,
        "not_applicable": [{"property_id": p, "reason": NOT_YET} for p in ALL if p not in CLAIMED],
        "notes": "See DESIGN.md. Every check: regenerate tables -> lake build theorems -> audit axioms -> rebuild harness against /repo working tree -> correspondence -> evidence -> verdict.",
    }
    json.dump(man, open(os.path.join(ROOT, "MANIFEST.json"), "w"), indent=1)

if __name__ == "__main__":
    main()
