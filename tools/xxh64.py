"""Pure-Python xxHash64 (seed 0) — used to recompute the digest of bytes a scripted test wrote."""
M = (1 << 64) - 1
P1, P2, P3, P4, P5 = 11400714785074694791, 14029467366897019727, 1609587929392839161, 9650029242287828579, 2870177450012600261

def _rotl(x, r): return ((x << r) | (x >> (64 - r))) & M
def _round(acc, inp): return (_rotl((acc + inp * P2) & M, 31) * P1) & M
def _merge(acc, v): return (((acc ^ _round(0, v)) * P1) + P4) & M

def xxh64(data, seed=0):
    n = len(data); i = 0
    if n >= 32:
        v1, v2, v3, v4 = (seed + P1 + P2) & M, (seed + P2) & M, seed, (seed - P1) & M
        while i + 32 <= n:
            v1 = _round(v1, int.from_bytes(data[i:i+8], "little")); v2 = _round(v2, int.from_bytes(data[i+8:i+16], "little"))
            v3 = _round(v3, int.from_bytes(data[i+16:i+24], "little")); v4 = _round(v4, int.from_bytes(data[i+24:i+32], "little"))
            i += 32
        h = (_rotl(v1, 1) + _rotl(v2, 7) + _rotl(v3, 12) + _rotl(v4, 18)) & M
        for v in (v1, v2, v3, v4): h = _merge(h, v)
    else:
        h = (seed + P5) & M
    h = (h + n) & M
    while i + 8 <= n:
        h ^= _round(0, int.from_bytes(data[i:i+8], "little")); h = (_rotl(h, 27) * P1 + P4) & M; i += 8
    if i + 4 <= n:
        h ^= (int.from_bytes(data[i:i+4], "little") * P1) & M; h = (_rotl(h, 23) * P2 + P3) & M; i += 4
    while i < n:
        h ^= (data[i] * P5) & M; h = (_rotl(h, 11) * P1) & M; i += 1
    h ^= h >> 33; h = (h * P2) & M; h ^= h >> 29; h = (h * P3) & M; h ^= h >> 32
    return h

def pattern(tag, length, mode="bin"):
    out = bytearray(length)
    for i in range(length):
        v = (i * 131 + tag * 17 + i // 251) % 256
        if mode == "ascii": v = ord("a") + v % 26
        elif mode == "nonl" and v == 10: v = ord(".")
        out[i] = v
    return bytes(out)

if __name__ == "__main__":
    assert xxh64(b"") == 0xEF46DB3751D8E999 and xxh64(b"abc") == 0x44BC2CF5AD770999
    assert xxh64(b"Nobody inspects the spammish repetition") == 0xFBCEA83C8A378BF1
    print("ok")
