#!/usr/bin/env python3
"""End-to-end engine: runs the real cargo-nextest (built from /repo's working tree with hooks) on the
scripted workspace e2e/ws, under a supervisor that injects signals at chosen moments, and collects the
history: nextest's own events (event-log tap), the ground truth every scripted process writes about
itself, the JUnit file, the exit status and wall-clock timings (all on CLOCK_MONOTONIC)."""
import os, re, signal, subprocess, sys, threading, time, json, shutil, binascii

ROOT = os.path.dirname(os.path.dirname(os.path.abspath(__file__)))
BUILD = os.path.join(ROOT, ".build")
WS = os.path.join(ROOT, "e2e", "ws")
E2E_TARGET = os.path.join(BUILD, "e2e-target")
NEXTEST = os.path.join(BUILD, "target", "debug", "cargo-nextest-verif")


def hx(s):
    b = s.encode() if isinstance(s, str) else s
    return "-" if not b else binascii.hexlify(b).decode()


def unhx(h):
    return b"" if h == "-" else binascii.unhexlify(h)


def build_workspace():
    env = dict(os.environ, CARGO_TARGET_DIR=E2E_TARGET, CARGO_NET_OFFLINE="true")
    p = subprocess.run(["cargo", "build", "--offline", "--quiet", "--tests", "--bins"], cwd=WS, env=env, stdout=subprocess.PIPE, stderr=subprocess.PIPE)
    return p.returncode == 0, p.stderr.decode()[-2000:]


def vscript_path():
    return os.path.join(E2E_TARGET, "debug", "vscript")


class Scenario:
    def __init__(self, name):
        self.name = name
        self.tests = []      # (bin, testname, ignored, {attempt|'*': [actions]})
        self.scripts = []    # (name, [actions])
        self.config = ""     # nextest.toml body
        self.cli = []        # extra CLI args after `nextest run`
        self.env = {}
        self.signals = []    # (pattern regex on event log line, nth occurrence (1-based), delay_ms, signal number)
        self.timeout_s = 60
        self.subcommand = "run"

    def test(self, binary, name, acts, ignored=False):
        self.tests.append((binary, name, ignored, acts if isinstance(acts, dict) else {"*": acts}))
        return self

    def spec_text(self):
        lines = []
        for (b, n, ig, acts) in self.tests:
            lines.append(f"list {b} {hx(n)} {1 if ig else 0}")
            for att, a in acts.items():
                lines.append(f"act {b} {hx(n)} {att} " + " ".join(a))
        for (n, a) in self.scripts:
            lines.append(f"script {n} " + " ".join(a))
        return "\n".join(lines) + "\n"


class Result:
    pass


def parse_proc_logs(logdir):
    procs = []
    for fn in sorted(os.listdir(logdir)):
        if not fn.endswith(".log"): continue
        p = {"pid": int(fn[:-4]), "env": {}, "sigs": [], "wrote": [], "start": None, "end": None, "raw": []}
        for line in open(os.path.join(logdir, fn), errors="replace"):
            f = line.rstrip("\n").split(" ")
            p["raw"].append(line.rstrip("\n"))
            if f[0] == "start":
                p["start"] = int(f[1])
                for kv in f[2:]:
                    k, _, v = kv.partition("=")
                    p[k] = int(v) if k in ("pid", "pgid", "ppid", "stdin_null") else v
                p["argv"] = [unhx(a).decode("utf-8", "replace") for a in p.get("argv", "").split(",")] if p.get("argv") else []
                p["cwd"] = unhx(p.get("cwd", "-")).decode("utf-8", "replace")
            elif f[0] == "child-start":
                p["start"] = int(f[1]); p["child"] = True
                for kv in f[2:]:
                    k, _, v = kv.partition("=")
                    p[k] = int(v) if k in ("pid", "pgid", "ppid") else v
            elif f[0] == "env":
                p["env"][unhx(f[1]).decode("utf-8", "replace")] = unhx(f[2]).decode("utf-8", "replace")
            elif f[0] == "sig":
                p["sigs"].append((int(f[1]), int(f[2])))
            elif f[0] == "gap":
                p.setdefault("gaps", []).append((int(f[1]), int(f[2])))
            elif f[0] in ("end-exit", "end-signal"):
                p["end"] = (f[0], int(f[1]), int(f[2]))
            elif f[0] == "wrote":
                p["wrote"].append(f[1:])
            elif f[0] == "forked":
                p.setdefault("forked", []).append(int(f[1]))
        procs.append(p)
    return procs


def parse_events(path):
    evs = []
    if not os.path.exists(path): return evs
    for line in open(path, errors="replace"):
        line = line.rstrip("\n")
        if not line: continue
        ns, _, rest = line.partition(" ")
        kind, _, data = rest.partition(" ")
        try: evs.append((int(ns), kind, data))
        except ValueError: pass
    return evs


def now_ns():
    return time.clock_gettime_ns(time.CLOCK_MONOTONIC)


def run(sc, workdir, nextest_bin=NEXTEST):
    if os.path.exists(workdir): shutil.rmtree(workdir)
    os.makedirs(os.path.join(workdir, "logs"))
    spec = os.path.join(workdir, "spec.txt")
    open(spec, "w").write(sc.spec_text())
    cfg = os.path.join(workdir, "nextest.toml")
    junit = os.path.join(workdir, "junit.xml")
    config = sc.config.replace("@VSCRIPT@", vscript_path()).replace("@JUNIT@", junit)
    open(cfg, "w").write(config)
    evlog = os.path.join(workdir, "events.log")
    env = dict(os.environ)
    env.update({"CARGO_TARGET_DIR": E2E_TARGET, "CARGO_NET_OFFLINE": "true", "VERIF_SPEC": spec, "VERIF_LOG_DIR": os.path.join(workdir, "logs"),
                "NEXTEST_VERIF_EVENT_LOG": evlog, "NO_COLOR": "1", "CARGO_TERM_COLOR": "never"})
    for k in list(env):
        if k.startswith("NEXTEST_") and k not in ("NEXTEST_VERIF_EVENT_LOG",): del env[k]
    env.update(sc.env)
    cmd = [nextest_bin, "nextest", sc.subcommand, "--manifest-path", os.path.join(WS, "Cargo.toml"), "--config-file", cfg, "--offline"] + sc.cli
    res = Result()
    res.cmd = cmd; res.workdir = workdir; res.junit = junit
    t0 = now_ns()
    stall = getattr(sc, "stall_stderr_s", 0)
    errf = open(os.path.join(workdir, "stderr.txt"), "wb")
    close_on = getattr(sc, "close_stderr_on", None)
    proc = subprocess.Popen(cmd, cwd=WS, env=env, stdout=open(os.path.join(workdir, "stdout.txt"), "wb"), stderr=(subprocess.PIPE if (stall or close_on) else errf),
                            stdin=subprocess.DEVNULL, start_new_session=True)
    drain = None
    if close_on:
        # a terminal that goes away: stderr is read until the event log shows `close_on`, then the read end is closed — nextest's
        # next write to it fails (EPIPE), which is a reporting failure
        def closer():
            import select
            pat = re.compile(close_on); fd = proc.stderr.fileno()
            while True:
                try: seen = pat.search(open(evlog, errors="replace").read()) is not None
                except FileNotFoundError: seen = False
                rl, _, _ = select.select([fd], [], [], 0.005)
                if rl:
                    b = os.read(fd, 65536)
                    if not b: break
                    errf.write(b); errf.flush()
                if seen:
                    proc.stderr.close(); break
        drain = threading.Thread(target=closer, daemon=True); drain.start()
    if stall:
        # a reader that does not read for `stall` seconds: nextest's writes to its terminal block once the pipe is full
        def drainer():
            time.sleep(stall)
            while True:
                b = proc.stderr.read(65536)
                if not b: break
                errf.write(b)
            errf.flush()
        drain = threading.Thread(target=drainer, daemon=True); drain.start()
    res.pid = proc.pid
    sent = []
    stop = threading.Event()

    def supervisor():
        pending = [dict(pat=re.compile(p), nth=n, delay=d, sig=s, seen=0, due=None, done=False) for (p, n, d, s) in sc.signals]
        pos = 0
        while not stop.is_set():
            try:
                with open(evlog, errors="replace") as f:
                    f.seek(pos)
                    chunk = f.read()
                    # only complete lines
                    if chunk and not chunk.endswith("\n"):
                        chunk = chunk[:chunk.rfind("\n") + 1]
                    pos += len(chunk.encode("utf-8", "replace"))
            except FileNotFoundError:
                chunk = ""
            for line in chunk.split("\n"):
                if not line: continue
                for pd in pending:
                    if pd["due"] is None and not pd["done"] and pd["pat"].search(line):
                        pd["seen"] += 1
                        if pd["seen"] == pd["nth"]:
                            pd["due"] = now_ns() + pd["delay"] * 1_000_000
            for pd in pending:
                if pd["due"] is not None and not pd["done"] and now_ns() >= pd["due"]:
                    try:
                        os.kill(proc.pid, pd["sig"])
                        sent.append((now_ns(), pd["sig"]))
                    except ProcessLookupError:
                        sent.append((now_ns(), -pd["sig"]))
                    pd["done"] = True
            time.sleep(0.005)

    th = threading.Thread(target=supervisor, daemon=True)
    th.start()
    stops = []
    deadline = time.time() + sc.timeout_s
    status = None
    while True:
        try:
            pid, st = os.waitpid(proc.pid, os.WNOHANG | os.WUNTRACED | os.WCONTINUED)
        except ChildProcessError:
            break
        if pid == proc.pid:
            if os.WIFSTOPPED(st): stops.append((now_ns(), "stopped", os.WSTOPSIG(st)))
            elif os.WIFCONTINUED(st): stops.append((now_ns(), "continued", 0))
            else:
                status = st
                break
        if time.time() > deadline:
            res.hung = True
            try: os.killpg(proc.pid, signal.SIGCONT)
            except ProcessLookupError: pass
            try: os.killpg(proc.pid, signal.SIGKILL)
            except ProcessLookupError: pass
            try: os.kill(proc.pid, signal.SIGKILL)
            except ProcessLookupError: pass
            try: _, status = os.waitpid(proc.pid, 0)
            except ChildProcessError: pass
            break
        time.sleep(0.003)
    t1 = now_ns()
    stop.set(); th.join(timeout=1)
    if drain is not None: drain.join(timeout=5)
    errf.close()
    proc.returncode = 0
    res.hung = getattr(res, "hung", False)
    res.t0, res.t1 = t0, t1
    res.wall_ms = (t1 - t0) / 1e6
    if status is None: res.exit = None
    elif os.WIFEXITED(status): res.exit = os.WEXITSTATUS(status)
    else: res.exit = -os.WTERMSIG(status)
    res.sent = sent
    res.stops = stops
    res.events = parse_events(evlog)
    res.procs = parse_proc_logs(os.path.join(workdir, "logs"))
    res.stderr = open(os.path.join(workdir, "stderr.txt"), errors="replace").read()
    res.stdout = open(os.path.join(workdir, "stdout.txt"), errors="replace").read()
    # kill stragglers recorded in logs (never by pattern): any logged pid still alive in a recorded pgid
    res.survivors = []
    time.sleep(0.05)
    for p in res.procs:
        try:
            os.kill(p["pid"], 0)
            # still alive (a zombie awaiting its reaper is dead); pid reuse is implausible within a run
            try:
                state = [l for l in open(f"/proc/{p['pid']}/status") if l.startswith("State:")][0]
            except (FileNotFoundError, IndexError, ProcessLookupError):
                state = "State:\tX"
            if "Z" not in state.split()[1] and "X" not in state.split()[1]:
                res.survivors.append(p["pid"])
        except (ProcessLookupError, PermissionError):
            pass
    for pid in res.survivors:
        try: os.kill(pid, signal.SIGKILL)
        except ProcessLookupError: pass
    return res


def confirm(sc, r, evaluate, base, max_runs=4):
    """A violation observed on a real run may be the machine's doing rather than nextest's (a loaded machine delays signals,
    stretches timings, lets a process die before it has logged its start).  A scenario whose first run raised something is
    therefore run again, alone, and a violation is reported only if the same kind of violation shows up in at least two runs;
    runs in which the scenario did not unfold as scripted (`machinery`) count as not evaluable.
    Returns (violations to report, note or None)."""
    first = evaluate(sc, r)
    if not first: return [], None
    # a scenario whose course depends on a choice nextest makes itself (which of two pending signals it handles first) may ask
    # for more re-runs before a violation is given up as not reproduced
    max_runs = max(max_runs, int(sc.meta.get("confirm_runs", 0) or 0)) if isinstance(getattr(sc, "meta", None), dict) else max_runs
    runs = [first]
    k = 0
    while len(runs) < max_runs:
        evaluable = [vs for vs in runs if not any(v.get("kind") == "machinery" for v in vs)]
        real = [vs for vs in evaluable if vs]
        if len(evaluable) >= 2 and (len(real) >= 2 or len(real) == 0): break
        if len(evaluable) >= max(3, max_runs - 1): break
        r2 = run(sc, os.path.join(base, f"rerun-{sc.name}-{k}")); k += 1
        if getattr(r2, "error", None): continue
        runs.append(evaluate(sc, r2))
    evaluable = [vs for vs in runs if not any(v.get("kind") == "machinery" for v in vs)]
    if len(evaluable) < 2:
        return [], f"scenario {sc.name}: not evaluable on this machine in {len(runs)} runs ({[v['what'][:80] for vs in runs for v in vs if v.get('kind') == 'machinery'][:2]})"
    counts = {}
    for vs in evaluable:
        for kd in {v["kind"] for v in vs}: counts[kd] = counts.get(kd, 0) + 1
    confirmed_kinds = {kd for kd, n in counts.items() if n >= 2}
    out = []; seen = set()
    for vs in evaluable:
        for v in vs:
            if v["kind"] in confirmed_kinds and v["kind"] not in seen:
                seen.add(v["kind"]); v = dict(v); v["payload"] = dict(v.get("payload", {}), reproduced_in_runs=counts[v["kind"]], runs=len(evaluable)); out.append(v)
    dropped = sorted(set(counts) - confirmed_kinds)
    note = f"scenario {sc.name}: {dropped} seen once in {len(evaluable)} runs and not reproduced (not reported)" if dropped else None
    return out, note


def run_many(scenarios, base, jobs=8):
    """Run scenarios in parallel (each in its own work dir); returns [(scenario, result)] in order."""
    out = [None] * len(scenarios)
    sem = threading.Semaphore(jobs)

    def one(k, sc):
        with sem:
            try:
                out[k] = (sc, run(sc, os.path.join(base, f"{k:03d}-{sc.name}")))
            except Exception as e:  # machinery failure
                r = Result(); r.error = repr(e); r.events = []; r.procs = []; r.exit = None; r.hung = False; r.stderr = ""; r.sent = []; r.stops = []; r.survivors = []; r.wall_ms = 0
                out[k] = (sc, r)
    ths = [threading.Thread(target=one, args=(k, sc)) for k, sc in enumerate(scenarios)]
    for t in ths: t.start()
    for t in ths: t.join()
    return out


if __name__ == "__main__":
    ok, err = build_workspace()
    print("workspace build:", ok, err[-300:])
    sc = Scenario("smoke")
    sc.config = '[profile.default]\nretries = 1\n[profile.default.junit]\npath = "@JUNIT@"\n'
    sc.test("t_one", "a::pass", ["out:" + hx("hello\n"), "exit:0"])
    sc.test("t_one", "a::fail", {"1": ["err:" + hx("boom\n"), "exit:3"], "2": ["exit:0"]})
    sc.test("t_three", "b::sig", ["kill:11"])
    r = run(sc, os.path.join(BUILD, "e2e-run", "smoke"))
    print("exit", r.exit, "wall", r.wall_ms, "hung", r.hung)
    for e in r.events: print(e)
    for p in r.procs: print(p["pid"], p.get("bin"), p.get("argv"), p.get("end"), p["env"].get("__NEXTEST_ATTEMPT"))
    print(r.stderr[-1500:])
