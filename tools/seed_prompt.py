#!/usr/bin/env python3
"""Print the prompt given to a mutation-seeding sub-agent for one property (property text only)."""
import json, sys
pid = sys.argv[1]
n = sys.argv[2] if len(sys.argv) > 2 else "2"
rec = None
for line in open('/verif/properties.jsonl'):
    r = json.loads(line)
    if r['id'] == pid:
        rec = r
assert rec
import os
base = os.environ.get("SEED_BASE", "/tmp/seed")
wt = f"{base}/{pid}"
out = f"{base}/{pid}-out"
files = ", ".join(rec['anchors']['files'])
mech = "; ".join(f"{m.get('name')} ({m.get('where')})" for m in rec['anchors']['mechanism'])
print(f"""You are helping test a verification tool by writing realistic *bugs*. You work ONLY inside the git worktree {wt}
(a checkout of the Rust project nextest-rs/nextest, the `cargo nextest` test runner) and the output directory {out} (create it).
Do NOT read or write anything under /verif or /repo. The machine is offline: always pass `--offline` to cargo
(e.g. `cd {wt} && cargo build --offline -p cargo-nextest`); nothing can be downloaded.

Here is a semantic property of nextest that is supposed to hold:

  [{rec['id']}] {rec['title']}
  Statement: {rec['statement']}
  Quantified over: {rec['quantifier']['text']}
  Code it is anchored in: {files}
  Mechanisms meant to make it hold: {mech}

Your task: produce {n} *independent* source changes to nextest (each one separately, each as its own patch against the
unmodified worktree) such that each change
  (a) BREAKS the property above (for some input / schedule / configuration / history),
  (b) still compiles (`cargo build --offline -p cargo-nextest` and `cargo test --offline --workspace --no-run`),
  (c) still passes the EXISTING test suite, unedited: run
        cd {wt} && cargo nextest run --workspace --no-fail-fast --tool-config-file pb:/w/lib/nextest.toml --profile pb --test-threads 8 --offline
      (the single test `nextest-runner::integration basic::test_run` already fails on the unmodified tree — ignore it;
       everything else that passes on the unmodified tree must still pass with your change),
  (d) looks like something a real developer could plausibly commit (a refactor gone wrong, an off-by-one, a swapped
      condition or order, a dropped case, a changed constant, an 'optimisation', two sites that each look fine alone),
      NOT a blatant sabotage, and
  (e) needs something SPECIFIC to manifest — a particular unusual input, a particular interleaving or timing, a fault at a
      particular point, a multi-step sequence, a particular configuration corner — rather than breaking on ordinary use.
      Prefer that the {n} changes are in different functions/files and break different clauses of the property.

For each change k = 1..{n} write into {out}/:
  m<k>.patch      — `git diff` of the change against the unmodified worktree (source changes only; never edit existing tests)
  m<k>-demo.*     — a demonstration that FAILS with the change and PASSES without it: either a new Rust test file
                    (say which crate/dir to drop it in and the command to run it) or a small shell/python script that
                    builds/runs the worktree's own cargo-nextest binary (target/debug/cargo-nextest, invoked as
                    `cargo-nextest nextest ...`) on a tiny workspace it creates under /tmp. Make the demo deterministic.
  m<k>-meta.txt   — which clause of the property it breaks, what it needs in order to manifest, the exact commands you ran,
                    and the observed demo output WITH and WITHOUT the change, plus the pass/fail counts of the test suite
                    with the change applied.

Procedure hints: first build the unmodified worktree once (warm target dir), read the anchored code, then for each change:
apply, build, run the demo (must fail), run the full existing suite (must pass as at baseline), save the patch, then
`git checkout -- .` (and remove any files you added to the tree) before the next change, and confirm the demo passes on
the clean tree. Be economical: the suite takes about 1.5–3 minutes. At the end leave the worktree source clean (no
modifications) but keep its target/ directory. Your final message should list, per change: patch path, one-line summary,
what it needs to manifest, and the demo command.""")
