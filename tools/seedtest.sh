#!/bin/sh
# usage: tools/seedtest.sh <patch> <Cxx> [<Cxx>...]   — applies a seeded change to /repo, runs the checks, reverts.
patch="$1"; shift
git -C /repo apply --check "$patch" || { echo "patch does not apply"; exit 3; }
git -C /repo apply "$patch"
for p in "$@"; do
  echo "== $p on $(basename $(dirname $patch))/$(basename $patch)"
  /verif/check "$p" 2>&1 | grep -E "^(VIOLATION|OK|KNOWN|  )" | head -6
done
git -C /repo checkout -- .
git -C /repo status --short | head -3
