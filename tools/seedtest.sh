#!/bin/bash
# usage: tools/seedtest.sh <patch> <Cxx> [<Cxx>...]   — applies a seeded change to /repo, runs the checks, always reverts.
patch="$1"; shift
out=$(mktemp)
trap 'git -C /repo checkout -- . ; rm -f "$out"' EXIT
trap '' PIPE
git -C /repo apply --check "$patch" || { echo "patch does not apply"; exit 3; }
git -C /repo apply "$patch"
for p in "$@"; do
  echo "== $p on $(basename $(dirname $patch))/$(basename $patch)" >> "$out"
  /verif/check "$p" 2>&1 | grep -E "^(VIOLATION|OK|KNOWN|  )" | head -6 >> "$out"
done
git -C /repo checkout -- .
cat "$out" 2>/dev/null || true
git -C /repo status --short | head -3
