#!/bin/bash
# usage: tools/seedtest.sh <patch> <Cxx> [<Cxx>...]   — applies a seeded change to /repo, runs the checks, always reverts.
patch="$1"; shift
out=$(mktemp)
# the evidence files are rewritten by every check run: the ones a run against a seeded change writes are not evidence about
# /repo and are discarded (the committed ones must come from the unchanged tree)
ev=$(mktemp -d)
cp -a /verif/evidence/. "$ev"/
trap 'git -C /repo checkout -- . ; rm -rf /verif/evidence; mkdir -p /verif/evidence; cp -a "$ev"/. /verif/evidence/; rm -rf "$out" "$ev"' EXIT
trap '' PIPE
git -C /repo apply --check "$patch" || { echo "patch does not apply"; exit 3; }
git -C /repo apply "$patch"
for p in "$@"; do
  echo "== $p on $(basename $(dirname $patch))/$(basename $patch)" >> "$out"
  /verif/check "$p" > "$out.full" 2>&1
  grep -E -A1 "^(VIOLATION|OK|KNOWN)" "$out.full" | grep -v "^--" | head -8 >> "$out"; rm -f "$out.full"
done
git -C /repo checkout -- .
# the generated tables were regenerated from the changed tree: bring them back to the unchanged one
python3 /verif/tools/extract.py > /dev/null 2>&1 || true
cat "$out" 2>/dev/null || true
git -C /repo status --short | head -3
