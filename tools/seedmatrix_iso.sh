#!/bin/bash
# usage (inside a `vp run --with-repo` snapshot of /verif):  tools/seedmatrix_iso.sh <pattern> [out]
# Runs the seed matrix for seeded/<pattern> against the SNAPSHOT of /repo ($VP_RUN_REPO) with its own build directories,
# so that /repo and /verif stay free.  The results are a development aid, never evidence.
pat=${1:-'*'}; R=${VP_RUN_REPO:?needs --with-repo}; V=$PWD; out=${2:-$V/matrix.log}
sed -i "s|/repo/|$R/|g" harness/Cargo.toml
sed -i "s|/verif/.build/target|$V/.build/target|" harness/.cargo/config.toml
sed -i "s|/repo|$R|g" setup.sh
export VERIF_REPO=$R
./setup.sh > $V/setup.log 2>&1 || { echo "setup failed"; tail -5 $V/setup.log; exit 2; }
: > "$out"
for d in $V/seeded/$pat/; do
  id=$(basename "$d"); prop=${id%%-*}
  grep -q '"retired"' "$d/meta.json" 2>/dev/null && { echo "$id $prop RETIRED (no longer breaks the property; see meta.json)" >> "$out"; continue; }
  git -C $R apply "$d/patch.diff" 2>/dev/null || { echo "$id $prop PATCH-DOES-NOT-APPLY" >> "$out"; continue; }
  $V/check "$prop" > $V/matrix.last 2>&1
  res=$(grep -E -A1 "^(VIOLATION|OK|KNOWN)" $V/matrix.last | grep -v "^--" | head -8)
  git -C $R apply -R "$d/patch.diff"
  if echo "$res" | grep -q "^VIOLATION"; then
    what=$(echo "$res" | grep -A1 "^VIOLATION" | sed -n 2p | cut -c1-220)
    nfi=$(echo "$res" | grep -c "no-failing-input-found")
    echo "$id $prop CAUGHT nfi=$nfi | $what" >> "$out"
  else
    echo "$id $prop MISSED | $(echo "$res" | tail -2 | tr '\n' ' ' | cut -c1-200)" >> "$out"
  fi
done
echo MATRIX-DONE >> "$out"
