#!/usr/bin/env python3
"""Regenerates lean/NextestModel/Gen/Tables.lean from /repo's *current* source.

Things that are data in the Rust source are not typed into Lean by hand: this extractor rewrites
them on every run, and the property theorems mention the generated definitions, so `lake build`
re-checks them against what the code says now.  Every regex is anchored and self-checked; on any
surprise the extractor raises (the check then reports the broken tie) rather than guessing.
"""
import os, re, sys

REPO = os.environ.get("VERIF_REPO", "/repo")
OUT = os.path.join(os.path.dirname(os.path.dirname(os.path.abspath(__file__))), "lean", "NextestModel", "Gen", "Tables.lean")


def read(rel):
    return open(os.path.join(REPO, rel)).read()


def strip_comments(src):
    src = re.sub(r"/\*.*?\*/", "", src, flags=re.S)
    return "\n".join(l.split("//")[0] if '"' not in l.split("//")[0] or l.split("//")[0].count('"') % 2 == 0 else l for l in src.split("\n"))


def enum_variants(src, name):
    m = re.search(r"pub(?:\([a-z]+\))?\s+enum\s+" + name + r"\s*\{(.*?)\n\}", src, re.S)
    if not m:
        raise RuntimeError(f"enum {name} not found")
    body = strip_comments(m.group(1))
    body = re.sub(r"#\[[^\]]*\]", "", body)
    # drop payloads
    depth, out = 0, ""
    for ch in body:
        if ch in "({": depth += 1
        elif ch in ")}": depth -= 1
        elif depth == 0: out += ch
    vs = [v.strip() for v in out.split(",") if v.strip()]
    if not vs or not all(re.fullmatch(r"[A-Z][A-Za-z0-9]*", v) for v in vs):
        raise RuntimeError(f"enum {name}: unexpected variants {vs}")
    return vs


def lean_str_list(xs):
    return "[" + ", ".join('"' + x.replace("\\", "\\\\").replace('"', '\\"') + '"' for x in xs) + "]"


def exit_codes():
    src = read("nextest-metadata/src/exit_codes.rs")
    codes = dict(re.findall(r"pub const ([A-Z_]+): i32 = (\d+);", src))
    for k in ("NO_TESTS_RUN", "TEST_RUN_FAILED", "SETUP_SCRIPT_FAILED"):
        if k not in codes: raise RuntimeError(f"exit code {k} not found")
    return codes


def expected_error_codes():
    """ExpectedError::process_exit_code arms for the three run outcomes."""
    src = strip_comments(read("cargo-nextest/src/errors.rs"))
    m = re.search(r"fn process_exit_code\(&self\) -> i32 \{(.*?)\n    \}", src, re.S)
    if not m: raise RuntimeError("process_exit_code not found")
    body = m.group(1)
    out = {}
    for variant in ("SetupScriptFailed", "TestRunFailed", "NoTestsRun"):
        mm = re.search(r"Self::" + variant + r"(?:\s*\{[^}]*\})?\s*=>\s*NextestExitCode::([A-Z_]+)", body)
        if not mm: raise RuntimeError(f"process_exit_code arm for {variant} not found")
        out[variant] = mm.group(1)
    ctor = {}
    for fn, variant in (("setup_script_failed", "SetupScriptFailed"), ("test_run_failed", "TestRunFailed")):
        mm = re.search(r"fn " + fn + r"\(\) -> Self \{\s*Self::(\w+)\s*\}", src)
        if not mm or mm.group(1) != variant: raise RuntimeError(f"ExpectedError::{fn} does not construct {variant}")
    return out


def exec_run_map():
    """The final `match run_stats.summarize_final()` of exec_run, as (pattern, outcome) pairs."""
    src = strip_comments(read("cargo-nextest/src/dispatch.rs"))
    m = re.search(r"match run_stats\.summarize_final\(\) \{(.*?)\n        \}\n    \}", src, re.S)
    if not m: raise RuntimeError("exec_run final match not found")
    body = re.sub(r"\s+", " ", m.group(1))
    arms = []
    def outcome(rhs):
        if "Ok(0)" in rhs: return "0"
        if "setup_script_failed" in rhs: return "SetupScriptFailed"
        if "test_run_failed" in rhs: return "TestRunFailed"
        if "NoTestsRun" in rhs: return "NoTestsRun"
        raise RuntimeError(f"unrecognised exec_run outcome: {rhs}")
    mm = re.search(r"FinalRunStats::Success => (.*?),", body)
    arms.append(("Success", outcome(mm.group(1))))
    nt = re.search(r"FinalRunStats::NoTestsRun => match runner_opts\.no_tests \{(.*?)\},\s*FinalRunStats", body)
    if not nt: raise RuntimeError("NoTestsRun arm not found")
    ntb = nt.group(1)
    for pol, key in (("Some(NoTestsBehavior::Pass)", "NoTestsRun/pass"), ("Some(NoTestsBehavior::Warn)", "NoTestsRun/warn"),
                     ("Some(NoTestsBehavior::Fail)", "NoTestsRun/fail"), ("None", "NoTestsRun/default")):
        i = ntb.find(pol + " =>")
        if i < 0: raise RuntimeError(f"no-tests policy {pol} not found")
        rest = ntb[i + len(pol) + 3:]
        # up to the next policy arm
        j = min([k for k in (rest.find("Some(NoTestsBehavior::"), rest.find(" None =>")) if k >= 0] or [len(rest)])
        arms.append((key, outcome(rest[:j])))
    for kind, key in (("SetupScript", "SetupScript"), ("Test { .. }", "Test")):
        mm = re.search(r"FinalRunStats::Cancelled\(RunStatsFailureKind::" + re.escape(kind) + r"\) \| FinalRunStats::Failed\(RunStatsFailureKind::" + re.escape(kind) + r"\) => \{? ?(.*?)\}", body)
        if not mm: raise RuntimeError(f"exec_run arm for {kind} not found")
        arms.append(("Cancelled|Failed/" + key, outcome(mm.group(1))))
    return arms


def parse_set_def_table():
    src = strip_comments(read("nextest-filtering/src/parsing.rs"))
    m = re.search(r"fn parse_set_def\(.*?ws\(alt\(\((.*?)\)\)\)", src, re.S)
    if not m: raise RuntimeError("parse_set_def not found")
    body = m.group(1)
    rows = []
    for mm in re.finditer(r'(unary_set_def\("(\w+)", DefaultMatcher::(\w+), SetDef::(\w+)\)|platform_def|nullary_set_def\("(\w+)")', body):
        if mm.group(2): rows.append((mm.group(2), mm.group(3).lower(), mm.group(4)))
        elif mm.group(5): rows.append((mm.group(5), "nullary", ""))
        else: rows.append(("platform", "platform", ""))
    if len(rows) != 11: raise RuntimeError(f"parse_set_def: expected 11 alternatives, found {len(rows)}")
    return rows


def escape_table():
    """`parse_escaped_char`'s single-character escapes: (escape letter, code point)."""
    src = strip_comments(read("nextest-filtering/src/parsing/unicode_string.rs"))
    m = re.search(r"fn parse_escaped_char.*?let valid = alt\(\((.*?)\)\);", src, re.S)
    if not m: raise RuntimeError("parse_escaped_char table not found")
    rows = []
    for mm in re.finditer(r"'(\\?.)'\.value\('(\\?[^']*)'\)", m.group(1)):
        a, b = mm.group(1), mm.group(2)
        unesc = {"\\n": 10, "\\r": 13, "\\t": 9, "\\\\": 92, "\\u{08}": 8, "\\u{0C}": 12}
        ca = 92 if a == "\\\\" else ord(a)
        cb = unesc.get(b, ord(b) if len(b) == 1 else None)
        if cb is None: raise RuntimeError(f"unrecognised escape value {b!r}")
        rows.append((ca, cb))
    if len(rows) != 9: raise RuntimeError(f"parse_escaped_char: expected 9 single-character escapes, found {len(rows)}")
    return rows


def signal_tables():
    """unix.rs: which signal each termination / job-control request becomes."""
    src = strip_comments(read("nextest-runner/src/runner/unix.rs"))
    sigmap = dict(re.findall(r"UnitTerminateSignal::(\w+) => (SIG\w+),", re.search(r"fn signal\(self\) -> libc::c_int \{(.*?)\n    \}", src, re.S).group(1)))
    if set(sigmap) != {"Interrupt", "Term", "Hangup", "Quit", "Kill"}: raise RuntimeError(f"UnitTerminateSignal::signal: unexpected arms {sigmap}")
    m = re.search(r"fn shutdown_terminate_method\(.*?\) -> UnitTerminateMethod \{(.*?)\n\}", src, re.S)
    if not m: raise RuntimeError("shutdown_terminate_method not found")
    body = re.sub(r"\s+", " ", m.group(1))
    z = re.search(r"if grace_period\.is_zero\(\) \{ return UnitTerminateMethod::Signal\(UnitTerminateSignal::(\w+)\); \}", body)
    if not z: raise RuntimeError("shutdown_terminate_method: zero-grace arm not found")
    shut = [("ZeroGrace", sigmap[z.group(1)])]
    for ev, sig in re.findall(r"ShutdownRequest::Once\(ShutdownEvent::(\w+)\) => \{ UnitTerminateMethod::Signal\(UnitTerminateSignal::(\w+)\) \}", body):
        shut.append((ev, sigmap[sig]))
    tw = re.search(r"ShutdownRequest::Twice => UnitTerminateMethod::Signal\(UnitTerminateSignal::(\w+)\)", body)
    if not tw or len(shut) != 5: raise RuntimeError(f"shutdown_terminate_method: unexpected arms {shut}")
    shut.append(("Twice", sigmap[tw.group(1)]))
    m = re.search(r"fn timeout_terminate_method\(.*?\) -> UnitTerminateMethod \{(.*?)\n\}", src, re.S)
    body = re.sub(r"\s+", " ", m.group(1))
    t = re.search(r"if grace_period\.is_zero\(\) \{ UnitTerminateMethod::Signal\(UnitTerminateSignal::(\w+)\) \} else \{ UnitTerminateMethod::Signal\(UnitTerminateSignal::(\w+)\) \}", body)
    if not t: raise RuntimeError("timeout_terminate_method: unexpected shape")
    timeout = [("ZeroGrace", sigmap[t.group(1)]), ("Otherwise", sigmap[t.group(2)])]
    m = re.search(r"fn job_control_child\(.*?\{(.*?)\n\}", src, re.S)
    jc = re.findall(r"JobControlEvent::(\w+) => (SIG\w+),", m.group(1))
    if sorted(jc) != [("Continue", "SIGCONT"), ("Stop", "SIGTSTP")] and dict(jc).keys() != {"Stop", "Continue"}: raise RuntimeError(f"job_control_child: unexpected arms {jc}")
    # the group is addressed: kill(-pid, ...)
    n_group = len(re.findall(r"libc::kill\(-pid(?:_i32)?,", src))
    # every way a unit's process is killed on unix: libc::kill, and tokio's Child::start_kill / kill (which address the leader only),
    # in unix.rs and in the executor
    ex = strip_comments(read("nextest-runner/src/runner/executor.rs"))
    n_any = len(re.findall(r"libc::kill\(", src)) + sum(len(re.findall(r"\.start_kill\(\)|\bchild\.kill\(\)", t)) for t in (src, ex))
    return shut, timeout, jc, (n_group, n_any)


def xml_filter_tables():
    """junit.rs `xml_string` + quick-junit `XmlString::new`: the characters removed from every text handed to the serializer,
    and how many of the `TestcaseOrRerun` setter arms pass their text through `xml_string`."""
    import glob
    src = strip_comments(read("nextest-runner/src/reporter/aggregator/junit.rs"))
    m = re.search(r"fn xml_string\(data: impl Into<XmlString>\) -> XmlString \{(.*?)\n\}", src, re.S)
    if not m: raise RuntimeError("junit.rs: xml_string not found")
    body = re.sub(r"\s+", " ", m.group(1))
    mm = re.fullmatch(r" let data = data\.into\(\); if data\.as_str\(\)\.contains\(\[(.*?)\]\) \{ XmlString::new\(data\.as_str\(\)\.replace\(\[(.*?)\], \"\"\)\) \} else \{ data \}", body)
    if not mm: raise RuntimeError(f"junit.rs: xml_string has an unexpected shape: {body}")
    def chars(t):
        cs = re.findall(r"'\\u\{([0-9a-fA-F]+)\}'", t)
        if len(cs) != len([x for x in t.split(",") if x.strip()]): raise RuntimeError(f"xml_string: unrecognised character list {t}")
        return [int(c, 16) for c in cs]
    tested, removed = chars(mm.group(1)), chars(mm.group(2))
    m = re.search(r"impl TestcaseOrRerun<'_> \{(.*?)\n\}", src, re.S)
    if not m: raise RuntimeError("junit.rs: impl TestcaseOrRerun not found")
    arms = re.findall(r"(?:testcase(?:\.status)?|rerun)\.set_(?:message|description|system_out|system_err)\((.*?)\);", m.group(1))
    n_wrapped = len([a for a in arms if re.fullmatch(r"xml_string\(\w+\)", a.strip())])
    # texts reach quick-junit's setters only through TestcaseOrRerun
    outside = src.replace(m.group(0), "")
    flat = re.sub(r"\s+", " ", outside)
    direct_recv = [r for r in re.findall(r"(\w+)\s*\.set_(?:message|description|system_out|system_err)\(", flat)
                   if not re.search(r"\b" + r + r": (?:&mut )?TestcaseOrRerun<", flat)]
    lock = read("Cargo.lock")
    v = re.search(r'name = "quick-junit"\nversion = "([^"]+)"', lock)
    if not v: raise RuntimeError("Cargo.lock: quick-junit not found")
    cands = glob.glob(os.path.expanduser(f"~/.cargo/registry/src/*/quick-junit-{v.group(1)}/src/report.rs"))
    if not cands: raise RuntimeError(f"quick-junit {v.group(1)} source not found in the cargo registry")
    qsrc = strip_comments(open(cands[0]).read())
    m = re.search(r"pub fn new\(data: impl AsRef<str>\) -> Self \{(.*?)\n    \}", qsrc, re.S)
    if not m: raise RuntimeError("quick-junit: XmlString::new not found")
    body = re.sub(r"\s+", " ", m.group(1))
    mm = re.fullmatch(r" let data = data\.as_ref\(\); let data = strip_ansi_escapes::strip_str\(data\); let data = data \.replace\( \|c\| matches!\(c, (.*?)\), \"\", \) \.into_boxed_str\(\); Self \{ data \}", body)
    if not mm: raise RuntimeError(f"quick-junit: XmlString::new has an unexpected shape: {body}")
    ranges = []
    for alt in mm.group(1).split("|"):
        a = alt.strip()
        r1 = re.fullmatch(r"'\\x([0-9a-fA-F]{2})'\.\.='\\x([0-9a-fA-F]{2})'", a)
        r2 = re.fullmatch(r"'\\x([0-9a-fA-F]{2})'", a)
        if r1: ranges.append((int(r1.group(1), 16), int(r1.group(2), 16)))
        elif r2: ranges.append((int(r2.group(1), 16), int(r2.group(1), 16)))
        else: raise RuntimeError(f"quick-junit: unrecognised pattern {a}")
    if not re.search(r"impl<T: AsRef<str>> From<T> for XmlString \{\s*fn from\(s: T\) -> Self \{\s*XmlString::new\(s\)", qsrc):
        raise RuntimeError("quick-junit: From<T> for XmlString is not XmlString::new")
    return tested, removed, (n_wrapped, len(arms)), sorted(set(direct_recv)), ranges


def junit_placeholders():
    """junit.rs: the fixed texts stored in place of a stream that does not exist."""
    src = strip_comments(read("nextest-runner/src/reporter/aggregator/junit.rs"))
    rows = re.findall(r'static (STDOUT_STDERR_COMBINED|STDOUT_NOT_CAPTURED|STDERR_NOT_CAPTURED|PROCESS_FAILED_TO_START): &str = "([^"\\]*)";', src)
    if sorted(k for k, _ in rows) != ["PROCESS_FAILED_TO_START", "STDERR_NOT_CAPTURED", "STDOUT_NOT_CAPTURED", "STDOUT_STDERR_COMBINED"]:
        raise RuntimeError(f"junit.rs: placeholder texts not found as expected: {rows}")
    return dict(rows)


def signal_handler_table():
    """signal.rs (unix `mod imp`): which signals are registered and which event each becomes."""
    src = strip_comments(read("nextest-runner/src/signal.rs"))
    m = re.search(r"mod imp \{\s*use super::\*;\s*use std::io;\s*use tokio::signal::unix::.*?\n\}\n", src, re.S)
    if not m: raise RuntimeError("signal.rs: unix mod imp not found")
    imp = m.group(0)
    ext = re.search(r"map\.extend\(\[(.*?)\]\);", imp, re.S)
    if not ext: raise RuntimeError("signal.rs: map.extend([...]) not found")
    kinds = {"SignalKind::interrupt()": "SIGINT", "SignalKind::hangup()": "SIGHUP", "SignalKind::terminate()": "SIGTERM", "SignalKind::quit()": "SIGQUIT",
             "SignalKind::user_defined1()": "SIGUSR1", "SignalKind::user_defined2()": "SIGUSR2"}
    for fn, raw in re.findall(r"fn (\w+)\(\) -> SignalKind \{\s*SignalKind::from_raw\(libc::(SIG\w+)\)\s*\}", imp):
        kinds[fn + "()"] = raw
    reg = {}
    entries = re.findall(r"\(SignalId::(\w+), signal_stream\((.*?)\)\?\)", ext.group(1))
    if len(entries) != len([x for x in ext.group(1).split("signal_stream(")]) - 1: raise RuntimeError("signal.rs: unrecognised registration entry")
    for sid, kind in entries:
        if kind not in kinds: raise RuntimeError(f"signal.rs: unrecognised signal kind {kind}")
        reg[sid] = kinds[kind]
    rv = re.search(r"async fn recv\(&mut self\) -> Option<SignalEvent> \{(.*?)\n        \}", imp, re.S)
    if not rv: raise RuntimeError("signal.rs: recv not found")
    body = re.sub(r"\s+", " ", rv.group(1))
    ev = dict((a, f"{b}/{c}") for a, b, c in re.findall(r"SignalId::(\w+) => SignalEvent::(\w+)\(\w+::(\w+)\)", body))
    q = re.search(r"SignalId::Quit => \{ if self\.sigquit_as_info \{ SignalEvent::Info\(SignalInfoEvent::Info\) \} else \{ SignalEvent::(\w+)\(\w+::(\w+)\) \} \}", body)
    if q: ev["Quit"] = f"{q.group(1)}/{q.group(2)}"
    rows = []
    for sid, sig in reg.items():
        if sid not in ev: raise RuntimeError(f"signal.rs: no event for registered signal {sid}")
        rows.append((sig, ev[sid]))
    return rows


def response_broadcasts():
    """dispatcher.rs `DispatcherContext::run`: for each `HandleEventResponse` (and, under Cancel, each `CancelEvent`), the requests
    the arm broadcasts to the running units, each with whether the call is unconditional (directly in the arm's block, not nested
    in an `if` / `match` / loop)."""
    src = strip_comments(read("nextest-runner/src/runner/dispatcher.rs"))
    m = re.search(r"match self\.handle_event\(internal_event\) \{", src)
    if not m: raise RuntimeError("dispatcher.rs: `match self.handle_event(internal_event)` not found")
    def block(text, i):
        depth = 1; j = i
        while depth and j < len(text):
            depth += {"{": 1, "}": -1}.get(text[j], 0); j += 1
        if depth: raise RuntimeError("dispatcher.rs: unbalanced block")
        return text[i:j - 1]
    def arms(text, prefix):
        # arms `prefix::Name(..)? => {` at nesting depth 0 of `text`
        out = []; depth = 0; k = 0
        while k < len(text):
            ch = text[k]
            if depth == 0:
                r = re.match(r"((?:#\[cfg\([^\]]*\)\]\s*)?)" + prefix + r"::(\w+)(\((?:[^()]|\([^()]*\))*\))? => \{", text[k:])
                if r:
                    body = block(text, k + r.end())
                    out.append((r.group(1).strip(), r.group(2), (r.group(3) or "").strip("()"), body))
                    k += r.end() + len(body) + 1; continue
            if ch == "{": depth += 1
            elif ch == "}": depth -= 1
            k += 1
        return out
    reqs = [(r"RunUnitRequest::OtherCancel", "otherCancel"), (r"RunUnitRequest::Signal\(\s*SignalRequest::Stop\(\s*\w+,?\s*\)\s*,?\s*\)", "stop"),
            (r"RunUnitRequest::Signal\(\s*SignalRequest::Continue\s*,?\s*\)", "continue"),
            (r"RunUnitRequest::Signal\(\s*SignalRequest::Shutdown\(\s*req\s*\)\s*,?\s*\)", "shutdown"),
            (r"RunUnitRequest::Query\(\s*RunUnitQuery::GetInfo\(\s*\w+\s*\)\s*,?\s*\)", "getInfo")]
    def calls(body):
        out = []; depth = 0; k = 0
        while k < len(body):
            if body.startswith("broadcast_request(", k):
                arg = body[k + len("broadcast_request("):]
                name = None
                for rx, n in reqs:
                    r = re.match(r"\s*" + rx + r"\s*\)", arg)
                    if r: name = n
                if name is None: raise RuntimeError(f"dispatcher.rs: unrecognised broadcast `{re.sub(chr(92) + 's+', ' ', arg[:70])}`")
                out.append((name, depth == 0))
            if body[k] == "{": depth += 1
            elif body[k] == "}": depth -= 1
            k += 1
        return out
    top = arms(block(src, m.end()), "HandleEventResponse")
    rows = []
    for cfg, name, arg, body in top:
        if "not(unix)" in cfg: continue
        if name == "Cancel":
            mm = re.search(r"match cancel \{", body)
            if not mm: raise RuntimeError("dispatcher.rs: `match cancel` not found in the Cancel arm")
            inner = block(body, mm.end())
            outside = body[:mm.start()] + body[mm.end() + len(inner):]
            if "broadcast_request" in outside: raise RuntimeError("dispatcher.rs: a broadcast in the Cancel arm outside `match cancel`")
            for _, n2, a2, b2 in arms(inner, "CancelEvent"):
                rows.append(("Cancel/" + n2, calls(b2)))
        elif name == "JobControl":
            r = re.fullmatch(r"JobControlEvent::(\w+)", arg)
            if not r: raise RuntimeError(f"dispatcher.rs: unrecognised JobControl pattern `{arg}`")
            rows.append(("JobControl/" + r.group(1), calls(body)))
        else:
            rows.append((name, calls(body)))
    want = {"JobControl/Stop", "JobControl/Continue", "Info", "Cancel/Report", "Cancel/TestFailure", "Cancel/Signal", "None"}
    got = [k for k, _ in rows]
    if set(got) != want or len(got) != len(want): raise RuntimeError(f"dispatcher.rs: response arms {got}, expected {sorted(want)}")
    n_all = len(re.findall(r"broadcast_request\(", block(src, m.end())))
    if n_all != sum(len(c) for _, c in rows): raise RuntimeError("dispatcher.rs: a broadcast_request call outside the recognised arms")
    return rows


def request_arms(src, fn_name, keys):
    """The arms of the `match req` inside `fn_name`'s request loop, each as a list of (guard, [actions]): a statement is
    `X.pause()` / `X.resume()` (→ `X.pause` / `X.resume`), the acknowledgement of a Stop (→ `ack`), `job_control_child(…, E)`
    (→ `job_control:E`), the group-wide SIGKILL (→ `kill-group`), an information response (→ `info`), or `break` (→ `break`, with
    its value if it has one); `if X.is_paused() { … }` groups its statements under the guard `X.is_paused`."""
    m = re.search(r"async fn " + fn_name + r"\b", src)
    if not m: raise RuntimeError(f"{fn_name} not found")
    body = src[m.end():]
    nxt = re.search(r"\n(?:pub(?:\(\w+\))? )?(?:async )?fn \w+", body)
    if nxt: body = body[:nxt.start()]
    def block(after):
        i = after; depth = 1; j = i
        while depth and j < len(body):
            depth += {"{": 1, "}": -1}.get(body[j], 0); j += 1
        return body[i:j - 1], j
    def stmt(t):
        t = re.sub(r"\s+", " ", t).strip().replace(".as_mut()", "")
        if not t: return []
        r = re.fullmatch(r"(\w+)\.(pause|resume)\(\)", t)
        if r: return [f"{r.group(1)}.{r.group(2)}"]
        r = re.fullmatch(r"(?:\w+::)*job_control_child\(child, (?:\w+::)*JobControlEvent::(\w+)\)", t)
        if r: return [f"job_control:{r.group(1)}"]
        if re.fullmatch(r"(?:let )?_ = (?:sender|tx)\.send\(\(\)\)", t): return ["ack"]
        if re.fullmatch(r"unsafe \{ libc::kill\(-pid_i32, SIGKILL\) ?;? \}", t): return ["kill-group"]
        r = re.fullmatch(r"break(?: (\w+(?:::\w+)*))?", t)
        if r: return ["break" + (":" + r.group(1).split("::")[-1] if r.group(1) else "")]
        if re.fullmatch(r"let \w+ = \w+\.snapshot\(\)", t): return []
        if re.fullmatch(r"HandleSignalResult::\w+", t): return []          # the arm's value: which kind of request it was
        # a clock touched only in the state that needs it, inside an enclosing block
        r = re.fullmatch(r"if (\w+)\.is_paused\(\) \{ ?(\w+)\.resume\(\) ?;? ?\}", t)
        if r and r.group(1) == r.group(2): return [f"{r.group(1)}.resume_if_paused"]
        r = re.fullmatch(r"if !(\w+)\.is_paused\(\) \{ ?(\w+)\.pause\(\) ?;? ?\}", t)
        if r and r.group(1) == r.group(2): return [f"{r.group(1)}.pause_unless_paused"]
        if re.match(r"(?:let )?_ = (?:sender|tx)\.send\( ?\w+\.info_response\(", t): return ["info"]
        raise RuntimeError(f"{fn_name}: unrecognised statement `{t[:80]}`")
    def split_top(text):
        # statements at nesting depth 0, `if … { … }` kept whole
        out = []; depth = 0; cur = ""
        k = 0
        while k < len(text):
            ch = text[k]
            if ch in "({[": depth += 1
            if ch in ")}]": depth -= 1
            cur += ch
            if depth == 0 and (ch == ";" or (ch == "}" and re.match(r"\s*(?:if|unsafe) ", cur))):
                out.append(cur.rstrip(";")); cur = ""
            k += 1
        if cur.strip(): out.append(cur)
        return out
    def parse(text):
        rows = []
        for t in split_top(text):
            t = t.strip()
            r = re.match(r"if (!?)(\w+)\.is_paused\(\) \{(.*)\}$", t, re.S)
            if r:
                acts = []
                for u in split_top(r.group(3)): acts += stmt(u)
                rows.append((r.group(2) + (".not_paused" if r.group(1) else ".is_paused"), acts)); continue
            a = stmt(t)
            if a: rows.append(("", a))
        return rows
    arms = {}
    for key, pat in keys.items():
        mm = re.search(pat + r" => \{", body)
        if not mm: raise RuntimeError(f"{fn_name}: {key} arm not found")
        text, _ = block(mm.end())
        arms[key] = parse(text)
    return arms


ARM_KEYS = {"Stop": r"RunUnitRequest::Signal\(SignalRequest::Stop\(\w+\)\)", "Continue": r"RunUnitRequest::Signal\(SignalRequest::Continue\)",
            "Shutdown": r"RunUnitRequest::Signal\(SignalRequest::Shutdown\(_\)\)", "OtherCancel": r"RunUnitRequest::OtherCancel",
            "GetInfo": r"RunUnitRequest::Query\(RunUnitQuery::GetInfo\(\w+\)\)"}


def lean_arm(rows):
    return "[" + ", ".join('("' + g + '", [' + ", ".join(f'"{a}"' for a in acts) + "])" for g, acts in rows) + "]"


def interval_branch(fn_name):
    """executor.rs: the `interval_sleep` branch of the main `select!` of `fn_name` (what happens when a slow-timeout period
    runs out), as (guard, actions) rows over the locals `will_terminate` and the grace period."""
    src = strip_comments(read("nextest-runner/src/runner/executor.rs"))
    m = re.search(r"async fn " + fn_name + r"\b", src)
    if not m: raise RuntimeError(f"{fn_name} not found")
    body = src[m.end():]
    nxt = re.search(r"\n    (?:pub(?:\(\w+\))? )?(?:async )?fn \w+", body)
    if nxt: body = body[:nxt.start()]
    mm = re.search(r"_ = &mut interval_sleep, if status\.is_none\(\) => \{", body)
    if not mm: raise RuntimeError(f"{fn_name}: interval_sleep branch not found")
    i = mm.end(); depth = 1; j = i
    while depth and j < len(body):
        depth += {"{": 1, "}": -1}.get(body[j], 0); j += 1
    t = re.sub(r"\s+", " ", body[i:j - 1]).strip()
    rows = []
    def eat(pat, what):
        nonlocal t
        r = re.match(pat, t)
        if not r: raise RuntimeError(f"{fn_name}: interval branch: expected {what} at `{t[:90]}`")
        t = t[r.end():].strip()
        return r
    eat(r"cx\.slow_after = Some\(slow_timeout\.period\);", "the slow mark"); rows.append(("", ["mark_slow"]))
    eat(r"timeout_hit \+= 1;", "the hit counter"); rows.append(("", ["hit"]))
    eat(r"let will_terminate = if let Some\(terminate_after\) = slow_timeout\.terminate_after \{ NonZeroUsize::new\(timeout_hit as usize\) \.expect\(\"[^\"]*\"\) >= terminate_after \} else \{ false \};", "will_terminate = (hits >= terminate-after)")
    eat(r"if !slow_timeout\.grace_period\.is_zero\(\) \{ let _ = resp_tx\.send\(\w+\.slow_event\( timeout_hit \* slow_timeout\.period, will_terminate\.then_some\(slow_timeout\.grace_period\), \)\); \}", "the slow event (hits x period, will_terminate), sent unless the grace period is zero")
    rows.append(("grace_nonzero", ["emit_slow"]))
    eat(r"if will_terminate \{", "`if will_terminate {`")
    acts = []
    while not t.startswith("} else {"):
        if re.match(r"_ = super::os::terminate_child\( &cx, &mut child, &mut child_acc, InternalTerminateReason::Timeout, stopwatch, req_rx, job\.as_ref\(\), slow_timeout\.grace_period, \) ?\.await;", t):
            eat(r"_ = super::os::terminate_child\(.*?\) ?\.await;", "terminate_child"); acts.append("terminate:Timeout"); continue
        if re.match(r"status = Some\(ExecutionResult::Timeout\);", t):
            eat(r"status = Some\(ExecutionResult::Timeout\);", "status"); acts.append("status:Timeout"); continue
        if re.match(r"if slow_timeout\.grace_period\.is_zero\(\) \{ break child\.wait\(\)\.await; \}", t):
            eat(r"if slow_timeout\.grace_period\.is_zero\(\) \{ break child\.wait\(\)\.await; \}", "zero-grace break")
            if acts: rows.append(("will_terminate", acts)); acts = []
            rows.append(("will_terminate&grace_zero", ["break_wait"])); continue
        raise RuntimeError(f"{fn_name}: interval branch: unrecognised statement at `{t[:90]}`")
    if acts: rows.append(("will_terminate", acts))
    eat(r"\} else \{ interval_sleep\.reset_last_duration\(\); \}".replace("interval_sleep\\.", "interval_sleep(?:\\.as_mut\\(\\))?\\."), "the else branch re-arming the interval")
    rows.append(("not_will_terminate", ["rearm"]))
    if t: raise RuntimeError(f"{fn_name}: interval branch: trailing statements `{t[:90]}`")
    return rows


def drain_always():
    """executor.rs: the pipes of an exited process are always read to the end (or to the leak timeout) — `detect_fd_leaks` is
    called unconditionally after both main loops and has no way out other than its loop's `break`s."""
    src = strip_comments(read("nextest-runner/src/runner/executor.rs"))
    def fn_body(name):
        m = re.search(r"async fn " + name + r"\b", src)
        if not m: raise RuntimeError(f"{name} not found")
        body = src[m.end():]
        nxt = re.search(r"\n(?:    )?(?:pub(?:\(\w+\))? )?(?:async )?fn \w+", body)
        return re.sub(r"\s+", " ", body[:nxt.start()] if nxt else body)
    rows = []
    d = fn_body("detect_fd_leaks")
    rows.append(("detect_fd_leaks: no return statement", " return " not in d and "return;" not in d))
    pre = d[d.index("{") + 1:d.index(" loop {")].strip() if " loop {" in d else "?"
    rows.append(("detect_fd_leaks: nothing but the timer before its loop", re.fullmatch(r"let mut sleep = std::pin::pin!\(crate::time::pausable_sleep\(leak_timeout\)\);", pre) is not None))
    for name in ("run_test_inner", "run_setup_script_inner"):
        b = fn_body(name)
        rows.append((f"{name}: detect_fd_leaks called unconditionally after the loop",
                     re.search(r"let tentative_status = status\.or_else\(.*?\}\); let leaked = detect_fd_leaks\( [^;]*?\) ?\.await; \(res, leaked\)", b) is not None))
    return rows


def verdict_shape():
    """executor.rs: after the main loop, the verdict recorded during the loop (a timeout) wins over the exit status — in the test
    loop and in the setup-script loop."""
    src = strip_comments(read("nextest-runner/src/runner/executor.rs"))
    rows = []
    for name in ("run_test_inner", "run_setup_script_inner"):
        m = re.search(r"async fn " + name + r"\b", src)
        if not m: raise RuntimeError(f"{name} not found")
        body = src[m.end():]
        nxt = re.search(r"\n    (?:pub(?:\(\w+\))? )?(?:async )?fn \w+", body)
        b = re.sub(r"\s+", " ", body[:nxt.start()] if nxt else body)
        rows.append((f"{name}: exec_result = status.unwrap_or_else(create_execution_result(exit_status, errors, leaked))",
                     re.search(r"let exec_result = status \.unwrap_or_else\(\|\| create_execution_result\(exit_status, &child_acc\.errors, leaked\)\);", b) is not None))
        # the only assignments to `status` inside the loop: the timeout verdict, and (Windows job objects) a kill by the job
        assigns = re.findall(r"\bstatus = Some\((.*?)\);", b)
        ok = all(a == "ExecutionResult::Timeout" or a.startswith("ExecutionResult::Fail { abort_status: Some(AbortStatus::JobObject)") for a in assigns) and "ExecutionResult::Timeout" in assigns
        rows.append((f"{name}: status is only ever set to Timeout (or, on Windows, to a job-object kill)", ok))
    return rows


def weight_wiring():
    """runner/imp.rs: how wide the run is, and what each test weighs in the queue."""
    src = re.sub(r"\s+", " ", strip_comments(read("nextest-runner/src/runner/imp.rs")))
    rows = []
    rows.append(("build: without capture the run is one test wide, otherwise the command line's thread count, otherwise the profile's",
                 re.search(r"let test_threads = match self\.capture_strategy \{ CaptureStrategy::None => 1, CaptureStrategy::Combined \| CaptureStrategy::Split => self \.test_threads \.unwrap_or_else\(\|\| profile\.test_threads\(\)\) \.compute\(\), \};", src) is not None))
    rows.append(("execute: a test's weight is its threads-required computed against the run's width",
                 re.search(r"let threads_required = test\.settings\.threads_required\(\)\.compute\(self\.test_threads\);", src) is not None))
    rows.append(("execute: the queue is as wide as the run", re.search(r"\.future_queue_grouped\(self\.test_threads, groups\)", src) is not None))
    rows.append(("execute: a group is as wide as its max-threads", re.search(r"\.map\(\|\(group_name, config\)\| \(group_name, config\.max_threads\.compute\(\)\)\)", src) is not None))
    return rows


def retry_wiring():
    """imp.rs / executor.rs: how a retry policy forced on the command line reaches the attempt loop."""
    imp = re.sub(r"\s+", " ", strip_comments(read("nextest-runner/src/runner/imp.rs")))
    ex = re.sub(r"\s+", " ", strip_comments(read("nextest-runner/src/runner/executor.rs")))
    return [
        ("build: the forced policy is handed on as given", re.search(r"force_retries: self\.retries,", imp) is not None),
        ("execute: the forced policy is given to the executor", re.search(r"self\.capture_strategy, self\.force_retries, \)", imp) is not None or re.search(r"self\.force_retries,", imp) is not None),
        ("run_test_instance: the forced policy, where there is one, replaces the test's own", re.search(r"let retry_policy = self\.force_retries\.unwrap_or_else\(\|\| settings\.retries\(\)\);", ex) is not None),
        ("run_test_instance: attempts = retries + 1, delays from that same policy", re.search(r"let total_attempts = retry_policy\.count\(\) \+ 1; let mut backoff_iter = BackoffIter::new\(retry_policy\);", ex) is not None),
    ]


def attempt_loop():
    """executor.rs `run_test_instance`: the attempt loop, segment by segment; the loop's text must be exactly the recognised
    segments in this order (anything added, removed or reordered loses the shape)."""
    ex = re.sub(r"\s+", " ", strip_comments(read("nextest-runner/src/runner/executor.rs")))
    m = re.search(r"let mut attempt = 0; let mut delay = Duration::ZERO; let last_run_status = loop \{ (.*?) \}; drain_req_rx\(req_rx, UnitExecuteStatus::Test\(&last_run_status\)\); "
                  r"let last_run_status = last_run_status\.into_external\(\); let _ = resp_tx\.send\(ExecutorEvent::Finished \{ test_instance: test\.instance, (?:\w+: settings\.\w+\(\), )*last_run_status, \}\); \}", ex)
    if not m: raise RuntimeError("run_test_instance: `let mut attempt = 0; … loop { … }; drain_req_rx(…); … Finished { … last_run_status }` not found")
    body = m.group(1)
    segs = [
        ("the attempt number is incremented first, from 0, and carried with the total in the attempt's retry data",
         r"attempt \+= 1; let retry_data = RetryData \{ attempt, total_attempts, \}; "),
        ("every attempt after the first asks the dispatcher first (RetryStarted); a refusal ends the unit at once, with no result",
         r"if retry_data\.attempt > 1 \{ let \(tx, rx\) = oneshot::channel\(\); _ = resp_tx\.send\(ExecutorEvent::RetryStarted \{ test_instance: test\.instance, retry_data, tx, \}\); "
         r"match rx\.await \{ Ok\(\(\)\) => \{\} Err\(_\) => \{ return; \} \} \} "),
        ("each pass runs exactly one attempt, with this attempt's retry data and the delay that preceded it",
         r"let packet = TestPacket \{ test_instance: test\.instance, cx: cx\.clone\(\), retry_data, settings: settings\.clone\(\), setup_script_data: setup_script_data\.clone\(\), delay_before_start: delay, \}; "
         r"let run_status = self\.run_test\(packet\.clone\(\), &resp_tx, &mut req_rx\)\.await; "),
        ("a successful attempt ends the loop with its own status",
         r"if run_status\.result\.is_success\(\) \{ break run_status; \} "),
        ("a failed attempt is retried exactly while attempt < total attempts: the backoff iterator's next delay is announced with the failed status and then waited",
         r"else if retry_data\.attempt < retry_data\.total_attempts \{ delay = backoff_iter \.next\(\) \.expect\(\"backoff delay must be non-empty\"\); "
         r"let run_status = run_status\.into_external\(\); let previous_result = run_status\.result; let previous_slow = run_status\.is_slow; "
         r"let _ = resp_tx\.send\(ExecutorEvent::AttemptFailedWillRetry \{ test_instance: test\.instance, failure_output: settings\.failure_output\(\), run_status, delay_before_next_attempt: delay, \}\); "
         r"handle_delay_between_attempts\( &packet, previous_result, previous_slow, delay, &mut req_rx, \) \.await; \} "),
        ("otherwise the loop ends with the last attempt's status",
         r"else \{ break run_status; \}"),
    ]
    rows = []; pos = 0
    for what, rx in segs:
        r = re.compile(rx).match(body, pos)
        rows.append((what, r is not None))
        if r: pos = r.end()
    rows.append(("nothing else is in the loop", pos == len(body) and all(ok for _, ok in rows)))
    rows.append(("one Finished is sent, after the loop, with the status the loop ended with", True))   # matched by the frame above
    if not any(ok for _, ok in rows[:len(segs)]): raise RuntimeError("run_test_instance: no segment of the attempt loop recognised")
    return rows


def snapshot_shape():
    """imp.rs: the snapshot taken of an attempt's output for an information request is a copy of the accumulators."""
    src = re.sub(r"\s+", " ", strip_comments(read("nextest-runner/src/test_command/imp.rs")))
    m = re.search(r"pub\(crate\) fn snapshot\((&(?:mut )?self)\) -> ChildOutput \{ (.*?) \} pub\(crate\) fn freeze\(self\)", src)
    if not m: raise RuntimeError("imp.rs: ChildOutputMut::snapshot not found")
    recv, body = m.group(1), m.group(2)
    m2 = re.search(r"pub\(crate\) fn snapshot_in_progress\( (&(?:mut )?self), error_description: &'static str, \) -> ChildExecutionOutput \{ (.*?) \} \}", src)
    if not m2: raise RuntimeError("imp.rs: ChildAccumulator::snapshot_in_progress not found")
    streams = re.findall(r"(stdout|stderr|output): (\w+)(?:\.as_ref\(\)\.map\(\|x\| x|)\.clone\(\)\.freeze\(\)\.into\(\)\)?,", body)
    return [
        ("ChildOutputMut::snapshot borrows the accumulators immutably", recv == "&self"),
        ("every stream's snapshot (stdout, stderr, combined) is clone().freeze(): a copy", sorted(a for a, _ in streams) == ["output", "stderr", "stdout"] and body.count(".freeze()") == 3),
        ("nothing is split off, taken, cleared or truncated", not re.search(r"\.split\w*\(|\.take\(|\.clear\(|\.truncate\(|mem::(?:take|replace|swap)", body)),
        ("ChildAccumulator::snapshot_in_progress borrows immutably and snapshots the output", m2.group(1) == "&self" and "output: self.output.snapshot()," in m2.group(2)),
    ]


def signal_names():
    """helpers.rs `signal_str` (unix): the names nextest shows for signal numbers."""
    src = strip_comments(read("nextest-runner/src/helpers.rs"))
    m = re.search(r"pub\(crate\) fn signal_str\(signal: i32\) -> Option<&'static str> \{\s*match signal \{(.*?)\n\s*\}\s*\}", src, re.S)
    if not m: raise RuntimeError("helpers.rs: signal_str not found")
    rows = []
    for line in [l.strip() for l in m.group(1).split("\n") if l.strip()]:
        r = re.fullmatch(r'(\d+) => Some\("(\w+)"\),', line)
        if r: rows.append((int(r.group(1)), r.group(2))); continue
        if re.fullmatch(r"_ => None,", line): continue
        raise RuntimeError(f"helpers.rs: unrecognised arm of signal_str `{line[:60]}`")
    if not rows: raise RuntimeError("helpers.rs: signal_str has no named signal")
    return rows


def status_words():
    """displayer/imp.rs `status_str` (unix arms): the word each kind of result is reported with on a status line."""
    src = strip_comments(read("nextest-runner/src/reporter/displayer/imp.rs"))
    m = re.search(r"fn status_str\(result: ExecutionResult\) -> Cow<'static, str> \{\s*match result \{(.*?)\n    \}\n\}", src, re.S)
    if not m: raise RuntimeError("displayer/imp.rs: status_str not found")
    body = re.sub(r"\s+", " ", m.group(1)).strip()
    # drop the windows arm
    body = re.sub(r"#\[cfg\(windows\)\] ExecutionResult::Fail \{ abort_status: Some\(AbortStatus::WindowsNtStatus\(_\)\) \| Some\(AbortStatus::JobObject\), leaked: _, \} => \{ \"ABORT\"\.into\(\) \} ", "", body)
    pats = [
        ("Fail/signal", r"#\[cfg\(unix\)\] ExecutionResult::Fail \{ abort_status: Some\(AbortStatus::UnixSignal\(sig\)\), leaked: _, \} => match crate::helpers::signal_str\(sig\) \{ Some\(s\) => format!\(\"(SIG)\{s\}\"\)\.into\(\), None => format!\(\"(ABORT SIG) \{sig\}\"\)\.into\(\), \}, "),
        ("Fail/leaked", r"ExecutionResult::Fail \{ abort_status: None, leaked: true, \} => \"([^\"]*)\"\.into\(\), "),
        ("Fail", r"ExecutionResult::Fail \{ abort_status: None, leaked: false, \} => \"([^\"]*)\"\.into\(\), "),
        ("ExecFail", r"ExecutionResult::ExecFail => \"([^\"]*)\"\.into\(\), "),
        ("Pass", r"ExecutionResult::Pass => \"([^\"]*)\"\.into\(\), "),
        ("Leak", r"ExecutionResult::Leak => \"([^\"]*)\"\.into\(\), "),
        ("Timeout", r"ExecutionResult::Timeout => \"([^\"]*)\"\.into\(\),"),
    ]
    rows = []; pos = 0
    for key, rx in pats:
        r = re.compile(rx).match(body, pos)
        if not r: raise RuntimeError(f"displayer/imp.rs status_str: arm for {key} not recognised at `{body[pos:pos + 70]}`")
        rows.append((key, "|".join(r.groups()))); pos = r.end()
    if body[pos:].strip(): raise RuntimeError(f"displayer/imp.rs status_str: unrecognised arm `{body[pos:pos + 70]}`")
    return rows


def short_status_words():
    """displayer/imp.rs `short_status_str` (unix arms): the word of a `TRY k …` line."""
    src = strip_comments(read("nextest-runner/src/reporter/displayer/imp.rs"))
    m = re.search(r"fn short_status_str\(result: ExecutionResult\) -> Cow<'static, str> \{\s*match result \{(.*?)\n    \}\n\}", src, re.S)
    if not m: raise RuntimeError("displayer/imp.rs: short_status_str not found")
    body = re.sub(r"\s+", " ", m.group(1)).strip()
    body = re.sub(r"#\[cfg\(windows\)\] ExecutionResult::Fail \{ abort_status: Some\(AbortStatus::WindowsNtStatus\(_\)\) \| Some\(AbortStatus::JobObject\), leaked: _, \} => \{ \"ABORT\"\.into\(\) \} ", "", body)
    pats = [
        ("Fail/signal", r"#\[cfg\(unix\)\] ExecutionResult::Fail \{ abort_status: Some\(AbortStatus::UnixSignal\(sig\)\), leaked: _, \} => match crate::helpers::signal_str\(sig\) \{ Some\(s\) => (s)\.into\(\), None => format!\(\"(SIG) \{sig\}\"\)\.into\(\), \}, "),
        ("Fail", r"ExecutionResult::Fail \{ abort_status: None, leaked: _, \} => \"([^\"]*)\"\.into\(\), "),
        ("ExecFail", r"ExecutionResult::ExecFail => \"([^\"]*)\"\.into\(\), "),
        ("Pass", r"ExecutionResult::Pass => \"([^\"]*)\"\.into\(\), "),
        ("Leak", r"ExecutionResult::Leak => \"([^\"]*)\"\.into\(\), "),
        ("Timeout", r"ExecutionResult::Timeout => \"([^\"]*)\"\.into\(\),"),
    ]
    rows = []; pos = 0
    for key, rx in pats:
        r = re.compile(rx).match(body, pos)
        if not r: raise RuntimeError(f"displayer/imp.rs short_status_str: arm for {key} not recognised at `{body[pos:pos + 70]}`")
        rows.append((key, "|".join(r.groups()))); pos = r.end()
    if body[pos:].strip(): raise RuntimeError(f"displayer/imp.rs short_status_str: unrecognised arm `{body[pos:pos + 70]}`")
    return rows


def script_sequencing():
    """executor.rs / imp.rs: setup scripts run one at a time, in order, and before any test is queued."""
    ex = re.sub(r"\s+", " ", strip_comments(read("nextest-runner/src/runner/executor.rs")))
    imp = re.sub(r"\s+", " ", strip_comments(read("nextest-runner/src/runner/imp.rs")))
    m = re.search(r"async fn run_setup_scripts\(.*?\) -> SetupScriptExecuteData<'a> \{(.*?)\} (?:pub\(super\) )?async fn ", ex)
    if not m: raise RuntimeError("run_setup_scripts not found")
    b = m.group(1)
    rows = [
        ("run_setup_scripts: the scripts are taken in the profile's order", "for (index, script) in setup_scripts.into_iter().enumerate() {" in b),
        ("run_setup_scripts: each script's future is awaited inside the loop, before the next one is built", re.search(r"if let Some\(\(script, env_map\)\) = script_fut\.await \{ setup_script_data\.add_script\(script, env_map\); \} \} setup_script_data$", b.strip()) is not None),
        ("run_setup_scripts: nothing is spawned or joined concurrently", not re.search(r"tokio::spawn|join_all|FuturesUnordered|buffer_unordered|join!", b)),
        ("run_setup_scripts: a refused start runs nothing", re.search(r"let mut req_rx = match req_rx_rx\.await \{ Ok\(req_rx\) => req_rx, Err\(_\) => \{ return None; \} \};", b) is not None),
        ("run_setup_scripts: only a script's own env map is handed on", re.search(r"let env_map = status\.env_map\.clone\(\);", b) is not None and re.search(r"env_map\.map\(\|env_map\| \(script, env_map\)\)", b) is not None),
    ]
    i = imp.find("let Some(script_data) = script_rx.blocking_recv() else {")
    j = imp.find("let tests = self.test_list.to_priority_queue(self.profile);")
    k = imp.find("executor_cx_ref.run_setup_scripts(")
    if k < 0: k = imp.find(".run_setup_scripts(")
    rows.append(("execute: the test queue is built only after the scripts' data has been received", 0 <= k < i < j))
    return rows


def spawn_setup():
    """executor.rs `run_test_inner` (and unix.rs): how an attempt's command is prepared before it is spawned."""
    ex = re.sub(r"\s+", " ", strip_comments(read("nextest-runner/src/runner/executor.rs")))
    ux = re.sub(r"\s+", " ", strip_comments(read("nextest-runner/src/runner/unix.rs")))
    m = re.search(r"async fn run_test_inner<'test>\(.*?let crate::test_command::Child \{", ex)
    if not m: raise RuntimeError("run_test_inner: command preparation not found")
    b = m.group(0)
    order = []
    for key, pat in [("make_command", r"\.make_command\(&ctx, self\.test_list, test\.settings\.run_extra_args\(\)\)"),
                     ("attempt", r'command_mut\.env\("__NEXTEST_ATTEMPT", format!\("\{\}", test\.retry_data\.attempt\)\)'),
                     ("run_id", r'command_mut\.env\("NEXTEST_RUN_ID", format!\("\{\}", self\.run_id\)\)'),
                     ("global_slot", r'command_mut\.env\( "NEXTEST_TEST_GLOBAL_SLOT", test\.cx\.global_slot\(\)\.to_string\(\), \)'),
                     ("group", r'command_mut\.env\("NEXTEST_TEST_GROUP", name\.as_str\(\)\).*?command_mut\.env\("NEXTEST_TEST_GROUP", TestGroup::GLOBAL_STR\)'),
                     ("group_slot", r'if let Some\(group_slot\) = test\.cx\.group_slot\(\) \{ command_mut\.env\("NEXTEST_TEST_GROUP_SLOT", group_slot\.to_string\(\)\); \} else \{ command_mut\.env\("NEXTEST_TEST_GROUP_SLOT", "none"\); \}'),
                     ("stdin_null", r"command_mut\.stdin\(Stdio::null\(\)\)"),
                     ("script_env", r"test\.setup_script_data\.apply\( &test\.test_instance\.to_test_query\(\), &self\.profile\.filterset_ecx\(\), command_mut, \)"),
                     ("process_group", r"super::os::set_process_group\(command_mut\)")]:
        mm = re.search(pat, b)
        order.append((key, mm.start() if mm else -1))
    rows = [(f"run_test_inner: {k} is there", pos >= 0) for k, pos in order]
    rows.append(("run_test_inner: in the order make_command, attempt, run id, global slot, group, group slot, stdin, script env, process group",
                 all(p >= 0 for _, p in order) and [p for _, p in order] == sorted(p for _, p in order)))
    rows.append(("unix.rs: set_process_group makes the child the leader of a new group", re.search(r"fn set_process_group\(cmd: &mut std::process::Command\) \{ cmd\.process_group\(0\); \}", ux) is not None))
    return rows


GROUPS = ["cancel", "mismatch", "exit", "setdef", "escape", "signals", "sighandler", "termchild", "termexit", "delayloop", "drainloop", "drainexit", "drainalways", "verdict", "weights", "retries", "scripts", "spawn", "mainloop", "interval", "placeholders", "xml", "respond", "attemptloop", "snapshot", "signames", "statuswords"]


def group_lines(g):
    """The Lean definitions of one table group (raises RuntimeError when the source no longer has the shape the group reads)."""
    if g == "cancel":
        cancel = enum_variants(read("nextest-runner/src/reporter/events.rs"), "CancelReason")
        return ["/-- `CancelReason` variants in declaration order (the derived `Ord` is the severity order) -/",
                f"def cancelReasonOrder : List String := {lean_str_list(cancel)}"]
    if g == "mismatch":
        mismatch = enum_variants(read("nextest-metadata/src/test_list.rs"), "MismatchReason")
        return ["/-- `MismatchReason` variants in declaration order -/",
                f"def mismatchReasonOrder : List String := {lean_str_list(mismatch)}"]
    if g == "exit":
        codes = exit_codes(); ee = expected_error_codes(); arms = exec_run_map()
        def code_of(outcome):
            return 0 if outcome == "0" else int(codes[ee[outcome]])
        return ["/-- the final `match` of `exec_run` composed with `ExpectedError::process_exit_code` and `NextestExitCode` -/",
                "def execRunExit : List (String × Nat) := [" + ", ".join(f'("{k}", {code_of(v)})' for k, v in arms) + "]",
                "",
                f"def exitNoTestsRun : Nat := {codes['NO_TESTS_RUN']}",
                f"def exitTestRunFailed : Nat := {codes['TEST_RUN_FAILED']}",
                f"def exitSetupScriptFailed : Nat := {codes['SETUP_SCRIPT_FAILED']}"]
    if g == "setdef":
        preds = parse_set_def_table()
        return ["/-- `parse_set_def`'s alternatives in `alt` order: (name, default matcher | nullary | platform, SetDef variant) -/",
                "def setDefTable : List (String × String × String) := [" + ", ".join(f'("{a}", "{b}", "{c}")' for a, b, c in preds) + "]"]
    if g == "escape":
        esc = escape_table()
        return ["/-- `parse_escaped_char`'s single-character escapes: (character after the backslash, resulting code point) -/",
                "def escapeTable : List (Nat × Nat) := [" + ", ".join(f"({a}, {b})" for a, b in esc) + "]"]
    if g == "signals":
        shut, timeout_t, jc, (n_group, n_any) = signal_tables()
        return ["/-- `shutdown_terminate_method` composed with `UnitTerminateSignal::signal`: request ↦ signal -/",
                "def shutdownSignalTable : List (String × String) := [" + ", ".join(f'("{a}", "{b}")' for a, b in shut) + "]",
                "",
                "/-- `timeout_terminate_method` -/",
                "def timeoutSignalTable : List (String × String) := [" + ", ".join(f'("{a}", "{b}")' for a, b in timeout_t) + "]",
                "",
                "/-- `job_control_child` -/",
                "def jobControlTable : List (String × String) := [" + ", ".join(f'("{a}", "{b}")' for a, b in jc) + "]",
                "",
                "/-- kill sites in unix.rs and executor.rs: (`libc::kill` addressed to the process group `-pid`, all `libc::kill` / `start_kill` / `child.kill`) -/",
                f"def killSites : Nat × Nat := ({n_group}, {n_any})"]
    if g == "sighandler":
        sigh = signal_handler_table()
        return ["/-- signal.rs (unix): every registered signal and the event `recv` turns it into (the debug-only SIGQUIT-as-info switch off) -/",
                "def signalHandlerTable : List (String × String) := [" + ", ".join(f'("{a}", "{b}")' for a, b in sigh) + "]"]
    if g == "respond":
        rows = response_broadcasts()
        return ["/-- dispatcher.rs `run`: what each response of `handle_event` makes the run loop broadcast to the running units: (request, the call is unconditional) -/",
                "def responseBroadcasts : List (String × List (String × Bool)) := [" + ", ".join(
                    f'("{k}", [' + ", ".join(f'("{a}", {"true" if b else "false"})' for a, b in c) + "])" for k, c in rows) + "]"]
    if g == "termchild":
        arms = request_arms(strip_comments(read("nextest-runner/src/runner/unix.rs")), "terminate_child", {k: ARM_KEYS[k] for k in ("Stop", "Continue", "Shutdown")})
        return ["/-- unix.rs `terminate_child`, arms of its request loop: (guard, actions) in order, guard \"\" = unconditional -/",
                f"def terminateChildStopArm : List (String × List String) := {lean_arm(arms['Stop'])}",
                f"def terminateChildContinueArm : List (String × List String) := {lean_arm(arms['Continue'])}",
                f"def terminateChildShutdownArm : List (String × List String) := {lean_arm(arms['Shutdown'])}"]
    if g == "termexit":
        keys = {"GraceExpired": r"_ = &mut sleep", "ChildExited": r"_ = child\.wait\(\)"}
        arms = request_arms(strip_comments(read("nextest-runner/src/runner/unix.rs")), "terminate_child", keys)
        return ["/-- unix.rs `terminate_child`: what happens when the grace period runs out, and when the process exits first -/"] + [
                f"def terminateChild{k}Arm : List (String × List String) := {lean_arm(arms[k])}" for k in ("GraceExpired", "ChildExited")]
    if g == "drainexit":
        keys = {"LeakTimerFired": r"\(\) = &mut sleep, if !child_acc\.fds\.is_done\(\)", "FdsDone": r"else"}
        arms = request_arms(strip_comments(read("nextest-runner/src/runner/executor.rs")), "detect_fd_leaks", keys)
        return ["/-- executor.rs `detect_fd_leaks`: how its loop ends — the leak timer fires, or both pipes are done; the value is `leaked` -/"] + [
                f"def drain{k}Arm : List (String × List String) := {lean_arm(arms[k])}" for k in ("LeakTimerFired", "FdsDone")]
    if g == "interval":
        return ["/-- executor.rs: the branch taken when a slow-timeout period runs out, in the test loop and in the setup-script loop -/",
                f"def testIntervalBranch : List (String × List String) := {lean_arm(interval_branch('run_test_inner'))}",
                f"def scriptIntervalBranch : List (String × List String) := {lean_arm(interval_branch('run_setup_script_inner'))}"]
    if g == "drainalways":
        rows = drain_always()
        return ["/-- executor.rs: structural facts about the draining of an exited process's pipes -/",
                "def drainAlways : List (String × Bool) := [" + ", ".join(f'("{a}", {"true" if b else "false"})' for a, b in rows) + "]"]
    if g == "verdict":
        rows = verdict_shape()
        return ["/-- executor.rs: how the attempt's result is put together after the main loop -/",
                "def verdictShape : List (String × Bool) := [" + ", ".join(f'("{a}", {"true" if b else "false"})' for a, b in rows) + "]"]
    if g == "weights":
        rows = weight_wiring()
        return ["/-- runner/imp.rs: the width of the run and the weight of a test, as wired -/",
                "def weightWiring : List (String × Bool) := [" + ", ".join(f'("{a}", {"true" if b else "false"})' for a, b in rows) + "]"]
    if g == "retries":
        rows = retry_wiring()
        return ["/-- imp.rs / executor.rs: the path of a forced retry policy, as wired -/",
                "def retryWiring : List (String × Bool) := [" + ", ".join(f'("{a}", {"true" if b else "false"})' for a, b in rows) + "]"]
    if g == "attemptloop":
        rows = attempt_loop()
        return ["/-- executor.rs `run_test_instance`: the attempt loop, segment by segment, as written -/",
                "def attemptLoopShape : List (String × Bool) := [" + ", ".join(f'("{a}", {"true" if b else "false"})' for a, b in rows) + "]"]
    if g == "snapshot":
        rows = snapshot_shape()
        return ["/-- imp.rs: how the snapshot for an information request is taken, as written -/",
                "def snapshotShape : List (String × Bool) := [" + ", ".join(f'("{a}", {"true" if b else "false"})' for a, b in rows) + "]"]
    if g == "signames":
        rows = signal_names()
        return ["/-- helpers.rs `signal_str`: the name shown for a signal number -/",
                "def signalNames : List (Nat × String) := [" + ", ".join(f'({a}, "{b}")' for a, b in rows) + "]"]
    if g == "statuswords":
        rows = status_words(); short = short_status_words()
        return ["/-- displayer/imp.rs `status_str`: the word a status line reports each kind of result with (a signal: `SIG<name>` or `ABORT SIG <n>`) -/",
                "def statusWords : List (String × String) := [" + ", ".join(f'("{a}", "{b}")' for a, b in rows) + "]",
                "",
                "/-- displayer/imp.rs `short_status_str`: the word of a `TRY k …` line (a signal: its bare name `s`, or `SIG <n>`) -/",
                "def shortStatusWords : List (String × String) := [" + ", ".join(f'("{a}", "{b}")' for a, b in short) + "]"]
    if g == "scripts":
        rows = script_sequencing()
        return ["/-- executor.rs / imp.rs: the sequencing of setup scripts, as written -/",
                "def scriptSequencing : List (String × Bool) := [" + ", ".join(f'("{a}", {"true" if b else "false"})' for a, b in rows) + "]"]
    if g == "spawn":
        rows = spawn_setup()
        return ["/-- executor.rs / unix.rs: how an attempt's command is prepared, as written -/",
                "def spawnSetup : List (String × Bool) := [" + ", ".join(f'("{a}", {"true" if b else "false"})' for a, b in rows) + "]"]
    if g == "mainloop":
        keys = {"Stop": r"SignalRequest::Stop\(\w+\)", "Continue": r"SignalRequest::Continue"}
        arms = request_arms(strip_comments(read("nextest-runner/src/runner/executor.rs")), "handle_signal_request", keys)
        return ["/-- executor.rs `handle_signal_request` (the main loop of an attempt), its job-control arms -/"] + [
                f"def main{k}Arm : List (String × List String) := {lean_arm(arms[k])}" for k in ("Stop", "Continue")]
    if g == "drainloop":
        keys = {k: ARM_KEYS[k] for k in ("Stop", "Continue", "OtherCancel")}
        keys["AnyOtherSignal"] = r"RunUnitRequest::Signal\(_\)"
        arms = request_arms(strip_comments(read("nextest-runner/src/runner/executor.rs")), "detect_fd_leaks", keys)
        return ["/-- executor.rs `detect_fd_leaks`, arms of its request loop -/"] + [
                f"def drain{k}Arm : List (String × List String) := {lean_arm(arms[k])}" for k in ("Stop", "Continue", "OtherCancel", "AnyOtherSignal")]
    if g == "delayloop":
        arms = request_arms(strip_comments(read("nextest-runner/src/runner/executor.rs")), "handle_delay_between_attempts", ARM_KEYS)
        return ["/-- executor.rs `handle_delay_between_attempts`, arms of its request loop -/"] + [
                f"def delay{k}Arm : List (String × List String) := {lean_arm(arms[k])}" for k in ("Stop", "Continue", "Shutdown", "OtherCancel", "GetInfo")]
    if g == "placeholders":
        ph = junit_placeholders()
        return ["/-- junit.rs: the texts stored in place of a stream that does not exist -/",
                f'def junitStdoutStderrCombined : String := "{ph["STDOUT_STDERR_COMBINED"]}"',
                f'def junitStdoutNotCaptured : String := "{ph["STDOUT_NOT_CAPTURED"]}"',
                f'def junitStderrNotCaptured : String := "{ph["STDERR_NOT_CAPTURED"]}"',
                f'def junitProcessFailedToStart : String := "{ph["PROCESS_FAILED_TO_START"]}"']
    if g == "xml":
        xt, xr, (xw, xa), xdirect, xranges = xml_filter_tables()
        return ["/-- junit.rs `xml_string`: the code points it looks for, and the ones it removes -/",
                f"def junitNoncharsTested : List Nat := [{', '.join(map(str, xt))}]",
                f"def junitNoncharsRemoved : List Nat := [{', '.join(map(str, xr))}]",
                "",
                "/-- `TestcaseOrRerun`'s setter arms: (those whose text goes through `xml_string`, all) -/",
                f"def junitSetterArms : Nat × Nat := ({xw}, {xa})",
                "",
                "/-- receivers on which a quick-junit text setter is called outside `TestcaseOrRerun` -/",
                f"def junitDirectSetters : List String := {lean_str_list(xdirect)}",
                "",
                "/-- quick-junit `XmlString::new`: the inclusive code point ranges it removes (after `strip_ansi_escapes::strip_str`) -/",
                "def xmlStringStripped : List (Nat × Nat) := [" + ", ".join(f"({a}, {b})" for a, b in xranges) + "]"]
    raise RuntimeError(f"unknown table group {g}")


def run(tables=None):
    """Regenerates Gen/Tables.lean.  Every group is read on its own: a group whose source no longer has the expected shape is
    left out (the theorems that use it then no longer compile) and reported in the returned dict {group: error}."""
    errors = {}
    old_text = open(OUT).read() if os.path.exists(OUT) else ""
    def old_block(g):
        m = re.search(r"-- BEGIN " + g + r"\n(.*?)-- END " + g + r"\n", old_text, re.S)
        return m.group(1).rstrip("\n").split("\n") if m else None
    lines = ["/- GENERATED by tools/extract.py from /repo's working tree on every check run.  Do not edit. -/",
             "namespace NextestModel.Gen", ""]
    for g in GROUPS:
        try:
            body = group_lines(g)
        except Exception as e:   # noqa: a missing anchor can surface as AttributeError on a failed re.search as well
            errors[g] = (f"{type(e).__name__}: {e}" if not isinstance(e, RuntimeError) else str(e)).replace("\n", " ")
            # keep the last values that could be read, so that everything that does not depend on this group still builds; the
            # properties that do depend on it are reported by `check` (GEN_GROUPS)
            body = [l for l in (old_block(g) or []) if not l.startswith("-- STALE")]
            body = [f"-- STALE: group `{g}` could not be regenerated from the source: {errors[g]}"] + body
        lines += [f"-- BEGIN {g}"] + body + [f"-- END {g}", ""]
    lines += ["end NextestModel.Gen", ""]
    text = "\n".join(lines)
    os.makedirs(os.path.dirname(OUT), exist_ok=True)
    old = open(OUT).read() if os.path.exists(OUT) else None
    if old != text:
        open(OUT, "w").write(text)
    return errors


if __name__ == "__main__":
    print(run() or "ok"); print(open(OUT).read())
