#!/bin/bash
# usage: tools/seedmatrix.sh [out]   — every seeded change against the check of its own property (quick tier); /repo is restored after each.
out=${1:-/verif/.build/seedmatrix.log}
: > "$out"
for d in /verif/seeded/*/; do
  id=$(basename "$d"); prop=${id%%-*}
  res=$(/verif/tools/seedtest.sh "$d/patch.diff" "$prop" 2>&1)
  if echo "$res" | grep -q "^VIOLATION"; then
    what=$(echo "$res" | grep -A1 "^VIOLATION" | sed -n 2p | cut -c1-220)
    nfi=$(echo "$res" | grep -c "no-failing-input-found")
    echo "$id $prop CAUGHT nfi=$nfi | $what" >> "$out"
  else
    echo "$id $prop MISSED | $(echo "$res" | tail -2 | tr '\n' ' ' | cut -c1-200)" >> "$out"
  fi
done
echo MATRIX-DONE >> "$out"
