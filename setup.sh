#!/bin/sh
# Builds the framework from files on disk only (offline).  Run once after a fresh restore.
set -e
cd "$(dirname "$0")"
export CARGO_NET_OFFLINE=true
( cd lean && lake build NextestModel driver 2>&1 | tail -3 )
cp /repo/Cargo.lock harness/Cargo.lock
( cd harness && cargo build --offline --bins 2>&1 | tail -3 )
( cd e2e/ws && CARGO_TARGET_DIR=/verif/.build/e2e-target cargo build --offline --tests --bins 2>&1 | tail -1 )
echo "setup done"
